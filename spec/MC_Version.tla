----------------------------- MODULE MC_Version -----------------------------
(***************************************************************************)
(* Bounded instances for version values: precedence (C04) and diff (C16).  *)
(*   Mode = "order"   all ordered pairs of a universe of versions          *)
(*   Mode = "triples" all triples over one tuple x every prerelease list   *)
(*                    (transitivity, totality)                             *)
(*   Mode = "diff"    all ordered pairs over {0,1,2}^3 x {release,-0,-a}   *)
(* Each pair is printed as a CASE line and executed against the crate.     *)
(***************************************************************************)
EXTENDS Version, TLC, Json, FiniteSets

CONSTANTS Mode, Size, Emit

D(n) == FromNat(n)
\* identifiers chosen so that numeric order differs from text order (2 < 10 but "10" < "2"),
\* and case / hyphen / digit suffixes are ordered by ASCII
Ids == { NumId(D(0)), NumId(D(2)), NumId(D(10)), TxtId(<<97>>), TxtId(<<66>>), TxtId(<<97, 45>>), TxtId(<<97, 48>>),
         TxtId(<<49, 97>>), TxtId(<<45>>),       \* "1a" and "-": text identifiers that start with a digit / a hyphen
         NumId(U64_MAX), NumId(NumPred(U64_MAX)) }   \* adjacent numerics that coincide as floating point numbers
\* the triple universe keeps to the short identifiers (133^3 triples would be too many)
IdsT == { NumId(D(0)), NumId(D(2)), NumId(D(10)), TxtId(<<97>>), TxtId(<<66>>), TxtId(<<97, 45>>), TxtId(<<49, 97>>) }
PreListsT == {<<>>} \cup {<<x>> : x \in IdsT} \cup {<<x, y>> : x \in IdsT, y \in IdsT}
PreLists == {<<>>} \cup {<<x>> : x \in Ids} \cup {<<x, y>> : x \in Ids, y \in Ids}
TuplesSmall == { <<1, 2, 3>>, <<1, 2, 10>>, <<1, 10, 3>> }
TuplesLarge == TuplesSmall \cup { <<2, 2, 3>>, <<10, 2, 3>>, <<0, 0, 0>> }
Tuples == IF Size = "small" THEN TuplesSmall ELSE TuplesLarge
OrderUniverse == { V4(D(t[1]), D(t[2]), D(t[3]), pre) : t \in Tuples, pre \in PreLists }
TripleUniverse == { V4(D(1), D(2), D(3), pre) : pre \in PreListsT }
DiffNums == {0, 1, 2}
DiffUniverse == { V4(D(a), D(b), D(c), pre) : a \in DiffNums, b \in DiffNums, c \in DiffNums,
                                             pre \in {<<>>, <<N0>>, <<TxtId(<<97>>)>>} }
Universe == CASE Mode = "order" -> OrderUniverse [] Mode = "triples" -> TripleUniverse [] Mode = "diff" -> DiffUniverse

Nil == <<>>
VARIABLES a, b, c
vars == <<a, b, c>>
Init == a = Nil /\ b = Nil /\ c = Nil
Next == \/ a = Nil /\ a' \in Universe /\ b' = Nil /\ c' = Nil
        \/ a # Nil /\ b = Nil /\ b' \in Universe /\ a' = a /\ c' = Nil
           /\ ((Emit /\ Mode = "order") => PrintT(<<"CASE", ToJson([op |-> "vcmp", a |-> a, b |-> b'])>>))
           /\ ((Emit /\ Mode = "diff") => PrintT(<<"CASE", ToJson([op |-> "vdiff", a |-> a, b |-> b'])>>))
        \/ Mode = "triples" /\ b # Nil /\ c = Nil /\ c' \in Universe /\ a' = a /\ b' = b
Spec == Init /\ [][Next]_vars

Pair == b # Nil
Triple == c # Nil
\* ---- C04 at design level: VCmp is a total order whose equivalence is equality of the key
InvReflexive == a # Nil => VCmp(a, a) = 0
InvAntisymmetric == Pair => VCmp(a, b) = -VCmp(b, a)
InvEqIffKey == Pair => ((VCmp(a, b) = 0) <=> (Key(a) = Key(b)))
InvTransitive == Triple => ((VLe(a, b) /\ VLe(b, c)) => VLe(a, c))
InvSucc == a # Nil => (VLt(a, Succ(a)) /\ (Pair => ~(VLt(a, b) /\ VLt(b, Succ(a)))))
\* ---- C16 at design level
InvDiffSymmetric == Pair => Diff(a, b) = Diff(b, a)
InvDiffNoneIffEqual == Pair => ((Diff(a, b) = "none") <=> VEq(a, b))
InvDiffBuildBlind == Pair => Diff([a EXCEPT !.bld = <<N0>>], b) = Diff(a, b)

\* SemVer 2.0.0 section 11 example chain
Al == TxtId(<<97, 108, 112, 104, 97>>)  Be == TxtId(<<98, 101, 116, 97>>)  Rc == TxtId(<<114, 99>>)
Chain == << V4(D(1), D(0), D(0), <<Al>>), V4(D(1), D(0), D(0), <<Al, NumId(D(1))>>), V4(D(1), D(0), D(0), <<Al, Be>>),
            V4(D(1), D(0), D(0), <<Be>>), V4(D(1), D(0), D(0), <<Be, NumId(D(2))>>), V4(D(1), D(0), D(0), <<Be, NumId(D(11))>>),
            V4(D(1), D(0), D(0), <<Rc, NumId(D(1))>>), V3(D(1), D(0), D(0)) >>
ASSUME \A i \in 1..(Len(Chain) - 1) : VLt(Chain[i], Chain[i + 1])
ASSUME VLt(V3(D(1), D(0), D(0)), V3(D(2), D(0), D(0))) /\ VLt(V3(D(2), D(0), D(0)), V3(D(2), D(1), D(0))) /\ VLt(V3(D(2), D(1), D(0)), V3(D(2), D(1), D(1)))
=============================================================================
