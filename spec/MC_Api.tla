------------------------------- MODULE MC_Api -------------------------------
(***************************************************************************)
(* Bounded instance of the API-session machine (C15, and C07/C08/C13 on    *)
(* derived operands): a client loads three ranges and applies MaxOps       *)
(* intersect / difference calls, each on any registers it already holds.   *)
(* The registers evolve by the DESIGN of the operations (Interval.tla);    *)
(* the ghost `ideal` evolves by plain set algebra on the probe universe.   *)
(* Invariant: every register denotes its ideal set.  All identities of     *)
(* C15 are consequences, and the model derives them: at the end of a       *)
(* session every pair of registers with the same ideal is emitted as an    *)
(* `ident` step that the real crate must honour.                           *)
(* Works exhaustively (small MaxOps, sliced leaves) and with -simulate.    *)
(***************************************************************************)
EXTENDS Interval, TLC, Json, SequencesExt

CONSTANTS MaxOps, Alts, Emit, Slice, Of, Of2

D(n) == FromNat(n)
a_ == TxtId(<<97>>)
Endpoints ==
  { V4(D(1), D(0), D(0), <<a_>>), V4(D(1), D(0), D(0), <<a_, N0>>), V3(D(1), D(0), D(0)),
    V4(D(1), D(0), D(1), <<N0>>), V3(D(2), D(0), D(0)) }
Bounds == {Unb} \cup {Inc(v) : v \in Endpoints} \cup {Exc(v) : v \in Endpoints}
Ivs == {iv \in {Iv(lo, up) : lo \in Bounds, up \in Bounds} : ValidIv(iv) /\ iv # AnyIv}
Leaves == {<<iv>> : iv \in Ivs} \cup (IF Alts >= 2 THEN {<<x, y>> : x \in Ivs, y \in Ivs} ELSE {})
LeafSeq == SetToSeq({<<iv>> : iv \in Ivs})
LeafPick == IF Alts >= 2 THEN Leaves ELSE { LeafSeq[i] : i \in { j \in 1..Len(LeafSeq) : j % Of = Slice % Of } }
LeafPick2 == IF Alts >= 2 THEN Leaves ELSE { LeafSeq[i] : i \in { j \in 1..Len(LeafSeq) : j % Of2 = (Slice \div Of) % Of2 } }
Leaf3 == { <<Iv(Inc(V3(D(1), D(0), D(0))), Unb)>>, <<Iv(Unb, Exc(V4(D(1), D(0), D(1), <<N0>>)))>>,
           <<Iv(Exc(V4(D(1), D(0), D(0), <<a_>>)), Inc(V3(D(2), D(0), D(0))))>> }
Leaf3Seq == SetToSeq(Leaf3)
Leaf3Pick == IF Of2 = 1 THEN Leaf3 ELSE { Leaf3Seq[(Slice % 3) + 1] }
P == Probes(Endpoints)

Nil == <<>>
NR == 3 + MaxOps
VARIABLES rr,     \* register file: 1..NR -> range or Nil
          def,    \* which registers have been assigned
          ideal,  \* ghost: register -> set of probe versions it must admit within its bounds
          prog    \* the session so far (sequence of steps), part of the state: one behaviour = one program
vars == <<rr, def, ideal, prog>>

Den(r) == {v \in P : RInB(r, v)}

Init == /\ rr = [i \in 1..NR |-> Nil] /\ def = {} /\ ideal = [i \in 1..NR |-> {}] /\ prog = <<>>

Load(d, leaf) ==
  /\ rr' = [rr EXCEPT ![d] = leaf]
  /\ def' = def \cup {d}
  /\ ideal' = [ideal EXCEPT ![d] = Den(leaf)]
  /\ prog' = Append(prog, [c |-> "rload", dst |-> d, val |-> leaf])
Op(o, d, a, b) ==
  /\ rr[a] # Nil /\ rr[b] # Nil
  /\ rr' = [rr EXCEPT ![d] = IF o = "isect" THEN Intersect(rr[a], rr[b]) ELSE Difference(rr[a], rr[b])]
  /\ def' = def \cup {d}
  /\ ideal' = [ideal EXCEPT ![d] = IF o = "isect" THEN ideal[a] \cap ideal[b] ELSE ideal[a] \ ideal[b]]
  /\ prog' = Append(prog, [c |-> o, dst |-> d, a |-> a, b |-> b])

NOps == Len(prog) - 3
Next ==
  \/ /\ Len(prog) = 0 /\ \E leaf \in LeafPick : Load(1, leaf)
  \/ /\ Len(prog) = 1 /\ \E leaf \in LeafPick2 : Load(2, leaf)
  \/ /\ Len(prog) = 2 /\ \E leaf \in Leaf3Pick : Load(3, leaf)
  \/ /\ Len(prog) >= 3 /\ NOps < MaxOps
     /\ \E o \in {"isect", "diff"}, a \in def, b \in def : Op(o, 4 + NOps, a, b)
     /\ (Emit /\ NOps + 1 = MaxOps) =>
           LET ids == UNION { { [c |-> "ident", kind |-> "eq", l |-> i, r |-> j] :
                                  j \in {k \in def' : k > i /\ k > 3 /\ ideal'[k] = ideal'[i]} } : i \in def' }
                      \cup { [c |-> "ident", kind |-> "empty", l |-> i, r |-> i] : i \in {k \in def' : k > 3 /\ ideal'[k] = {}} }
               prs == { [c |-> "print", dst |-> 9, a |-> i] : i \in {k \in def' : k > 3} }
           IN PrintT(<<"CASE", ToJson([op |-> "steps", steps |-> prog' \o SetToSeq(ids) \o SetToSeq(prs)])>>)
Spec == Init /\ [][Next]_vars

\* ---- the one invariant: every register denotes its ideal; None only when the ideal is empty
InvIdeal == \A i \in def : IF rr[i] = Nil THEN ideal[i] = {} ELSE Den(rr[i]) = ideal[i]
\* every interval the design produces is valid, and never the unprintable `*` shape
InvShapes == \A i \in def : \A k \in 1..Len(rr[i]) : ValidIv(rr[i][k]) /\ rr[i][k] # AnyIv
\* the identities of C15, stated explicitly on the session's registers (consequences of InvIdeal)
InvIdentities ==
  Len(prog) = 3 =>
  \A i \in def \cap 1..3, j \in def \cap 1..3, k \in def \cap 1..3 :
    /\ Den(Intersect(rr[i], rr[j])) = Den(Intersect(rr[j], rr[i]))
    /\ Den(Intersect(rr[i], rr[i])) = Den(rr[i])
    /\ Den(Difference(rr[i], rr[i])) = {}
    /\ Den(Intersect(Difference(rr[i], rr[j]), rr[j])) = {}
    /\ Den(Difference(rr[i], Difference(rr[i], rr[j]))) = Den(Intersect(rr[i], rr[j]))
    /\ Den(Intersect(rr[i], rr[j])) \cup Den(Difference(rr[i], rr[j])) = Den(rr[i])
    /\ Den(Intersect(Intersect(rr[i], rr[j]), rr[k])) = Den(Intersect(rr[i], Intersect(rr[j], rr[k])))
=============================================================================
