------------------------------ MODULE RangeText ------------------------------
(***************************************************************************)
(* The range-text language at byte level: from bytes to the syntax tree of *)
(* RangeSyntax.tla, for the documented grammar plus the loose spellings    *)
(* the property lists.  ParseRangeText(bytes) is                           *)
(*     [det |-> TRUE, ast |-> r]   the text is in the documented language  *)
(*                                 (tokens that match no comparator are    *)
(*                                 garbage and are dropped), its meaning   *)
(*                                 is Means(r, _)                          *)
(*     [det |-> FALSE]             the text uses a form the property does  *)
(*                                 not determine (an empty alternative,    *)
(*                                 leading/trailing blanks, a hyphen mixed *)
(*                                 with comparators, chained operator      *)
(*                                 tokens, a component above               *)
(*                                 MAX_SAFE_INTEGER, a very long text):    *)
(*                                 no obligation                           *)
(* With it every recorded Range::parse call can be judged for C01 - also   *)
(* the token strings and damaged texts of the C06 runs - not only the      *)
(* texts that were rendered from a known tree.                             *)
(* MC_Syntax checks ParseRangeText(RenderRange(r)) against r on every tree.*)
(***************************************************************************)
EXTENDS RangeSyntax

IsSp(c) == c = 32 \/ c = 9

\* ---- split at `||`
RECURSIVE SplitOr(_, _, _, _)
SplitOr(b, i, cur, acc) ==
  IF i > Len(b) THEN Append(acc, cur)
  ELSE IF b[i] = 124 /\ i < Len(b) /\ b[i + 1] = 124 THEN SplitOr(b, i + 2, <<>>, Append(acc, cur))
  ELSE SplitOr(b, i + 1, Append(cur, b[i]), acc)

\* ---- split an alternative into blank-separated tokens (blanks = space, tab)
RECURSIVE Tokens(_, _, _, _)
Tokens(b, i, cur, acc) ==
  IF i > Len(b) THEN (IF cur = <<>> THEN acc ELSE Append(acc, cur))
  ELSE IF IsSp(b[i]) THEN Tokens(b, i + 1, <<>>, IF cur = <<>> THEN acc ELSE Append(acc, cur))
  ELSE Tokens(b, i + 1, Append(cur, b[i]), acc)

\* ---- one partial version: a small machine over the bytes of a token (after operator and `v`)
PS0 == [ph |-> "M0", M |-> CAbs, m |-> CAbs, p |-> CAbs, num |-> <<>>, pre |-> <<>>, bld |-> <<>>, cur |-> <<>>, nohy |-> FALSE, big |-> FALSE]
IsX(c) == c = 120 \/ c = 88 \/ c = 42
PDead(s) == [s EXCEPT !.ph = "dead"]
\* close the number being read into the current component
CloseNum(s) == LET c == CNum(s.num)
                   big == s.big \/ ~FitsSafe(s.num) IN
               CASE s.ph = "M" -> [s EXCEPT !.M = c, !.num = <<>>, !.big = big]
                 [] s.ph = "m" -> [s EXCEPT !.m = c, !.num = <<>>, !.big = big]
                 [] s.ph = "p" -> [s EXCEPT !.p = c, !.num = <<>>, !.big = big]
                 [] OTHER -> s
PStep(s, c) ==
  CASE s.ph = "M0" -> IF IsDigit(c) THEN [s EXCEPT !.ph = "M", !.num = <<DVal(c)>>]
                      ELSE IF IsX(c) THEN [s EXCEPT !.ph = "Mx", !.M = CX(c)] ELSE PDead(s)
    [] s.ph = "M"  -> IF IsDigit(c) THEN [s EXCEPT !.num = Append(@, DVal(c))]
                      ELSE IF c = 46 THEN [CloseNum(s) EXCEPT !.ph = "m0"] ELSE PDead(s)
    [] s.ph = "Mx" -> IF c = 46 THEN [s EXCEPT !.ph = "m0"] ELSE PDead(s)
    [] s.ph = "m0" -> IF IsDigit(c) THEN [s EXCEPT !.ph = "m", !.num = <<DVal(c)>>]
                      ELSE IF IsX(c) THEN [s EXCEPT !.ph = "mx", !.m = CX(c)] ELSE PDead(s)
    [] s.ph = "m"  -> IF IsDigit(c) THEN [s EXCEPT !.num = Append(@, DVal(c))]
                      ELSE IF c = 46 THEN [CloseNum(s) EXCEPT !.ph = "p0"] ELSE PDead(s)
    [] s.ph = "mx" -> IF c = 46 THEN [s EXCEPT !.ph = "p0"] ELSE PDead(s)
    [] s.ph = "p0" -> IF IsDigit(c) THEN [s EXCEPT !.ph = "p", !.num = <<DVal(c)>>]
                      ELSE IF IsX(c) THEN [s EXCEPT !.ph = "px", !.p = CX(c)] ELSE PDead(s)
    [] s.ph = "p"  -> IF IsDigit(c) THEN [s EXCEPT !.num = Append(@, DVal(c))]
                      ELSE IF c = 45 THEN [CloseNum(s) EXCEPT !.ph = "pre0"]
                      ELSE IF c = 43 THEN [CloseNum(s) EXCEPT !.ph = "b0"]
                      ELSE IF IsAlpha(c) THEN [CloseNum(s) EXCEPT !.ph = "pre", !.cur = <<c>>, !.nohy = TRUE]
                      ELSE PDead(s)
    [] s.ph = "px" -> IF c = 45 THEN [s EXCEPT !.ph = "pre0"]
                      ELSE IF c = 43 THEN [s EXCEPT !.ph = "b0"]
                      ELSE IF IsAlpha(c) \/ IsDigit(c) THEN [s EXCEPT !.ph = "pre", !.cur = <<c>>, !.nohy = TRUE]
                      ELSE PDead(s)
    [] s.ph = "pre0" -> IF IsIdent(c) THEN [s EXCEPT !.ph = "pre", !.cur = <<c>>] ELSE PDead(s)
    [] s.ph = "pre" -> IF IsIdent(c) THEN [s EXCEPT !.cur = Append(@, c)]
                       ELSE IF c = 46 THEN [s EXCEPT !.ph = "pre0", !.pre = Append(@, s.cur), !.cur = <<>>]
                       ELSE IF c = 43 THEN [s EXCEPT !.ph = "b0", !.pre = Append(@, s.cur), !.cur = <<>>]
                       ELSE PDead(s)
    [] s.ph = "b0" -> IF IsIdent(c) THEN [s EXCEPT !.ph = "b", !.cur = <<c>>] ELSE PDead(s)
    [] s.ph = "b"  -> IF IsIdent(c) THEN [s EXCEPT !.cur = Append(@, c)]
                      ELSE IF c = 46 THEN [s EXCEPT !.ph = "b0", !.bld = Append(@, s.cur), !.cur = <<>>]
                      ELSE PDead(s)
    [] OTHER -> s
RECURSIVE PRun(_, _, _)
PRun(s, b, i) == IF i > Len(b) THEN s ELSE PRun(PStep(s, b[i]), b, i + 1)
\* result: [ok, big, pa]
ParsePartial(b) ==
  LET s0 == PRun(PS0, b, 1)
      s == IF s0.ph \in {"M", "m", "p"} THEN CloseNum(s0) ELSE s0
      pre == IF s.ph = "pre" THEN Append(s.pre, s.cur) ELSE s.pre
      bld == IF s.ph = "b" THEN Append(s.bld, s.cur) ELSE s.bld
      ok == s.ph \in {"M", "Mx", "m", "mx", "p", "px", "pre", "b"}
  IN [ok |-> ok, big |-> s.big,
      pa |-> [v |-> FALSE, M |-> s.M, m |-> s.m, p |-> s.p, pre |-> pre, bld |-> bld, nohy |-> s.nohy]]

\* ---- operator prefix of a token
OpOf(t) ==
  IF Len(t) >= 2 /\ t[1] = 62 /\ t[2] = 61 THEN [op |-> ">=", n |-> 2]
  ELSE IF Len(t) >= 2 /\ t[1] = 60 /\ t[2] = 61 THEN [op |-> "<=", n |-> 2]
  ELSE IF Len(t) >= 2 /\ t[1] = 126 /\ t[2] = 62 THEN [op |-> "~>", n |-> 2]
  ELSE IF Len(t) >= 1 /\ t[1] = 62 THEN [op |-> ">", n |-> 1]
  ELSE IF Len(t) >= 1 /\ t[1] = 60 THEN [op |-> "<", n |-> 1]
  ELSE IF Len(t) >= 1 /\ t[1] = 61 THEN [op |-> "=", n |-> 1]
  ELSE IF Len(t) >= 1 /\ t[1] = 126 THEN [op |-> "~", n |-> 1]
  ELSE IF Len(t) >= 1 /\ t[1] = 94 THEN [op |-> "^", n |-> 1]
  ELSE [op |-> "", n |-> 0]
Drop(t, n) == SubSeq(t, n + 1, Len(t))
IsOpOnly(t) == LET o == OpOf(t) IN o.n > 0 /\ o.n = Len(t)
\* a token -> comparator | garbage; `big` marks a component above MAX_SAFE_INTEGER (undetermined)
ParseToken(t) ==
  LET o == OpOf(t)
      r1 == Drop(t, o.n)
      r2 == IF Len(r1) >= 1 /\ r1[1] = 118 THEN Drop(r1, 1) ELSE r1
      pp == ParsePartial(r2)
      \* npm also skips repeated `v` and `=` before a version (`vv1`, `>==1`, `v=1`): not a listed spelling
      odd == (Len(r1) >= 1 /\ r1[1] = 61) \/ (Len(r2) >= 1 /\ (r2[1] = 118 \/ r2[1] = 61))
  IN IF odd THEN [big |-> TRUE, c |-> GarbageOf(t)]
     ELSE IF pp.ok THEN [big |-> pp.big, c |-> [op |-> o.op, sp |-> <<>>, pa |-> pp.pa]]
     ELSE [big |-> FALSE, c |-> GarbageOf(t)]

\* ---- merge an operator-only token with the token that follows it (blanks after an operator)
RECURSIVE MergeOps(_, _, _)
\* result: [toks, chained]  chained = an operator token followed by another operator token, or last
MergeOps(toks, i, acc) ==
  IF i > Len(toks) THEN [toks |-> acc, chained |-> FALSE]
  ELSE IF IsOpOnly(toks[i]) THEN
         (IF i = Len(toks) THEN [toks |-> Append(acc, toks[i]), chained |-> FALSE]      \* a lone operator: garbage
          ELSE IF OpOf(toks[i + 1]).n > 0 THEN [toks |-> acc, chained |-> TRUE]
          ELSE MergeOps(toks, i + 2, Append(acc, toks[i] \o toks[i + 1])))
  ELSE MergeOps(toks, i + 1, Append(acc, toks[i]))

Hy == <<45>>
\* a `v` prefix cut off from its version by blanks (`v 1.2.3`, `>=v 1.2.3`, `>= v 1.2.3`): two readings, both with
\* standing.  The crate lists `v 1.2.3 -> 1.2.3` among its loose spellings and reads the blanks as part of the prefix
\* (`>=v 1.2.3` is `>=1.2.3`); node-semver reads `>=v` as an unparseable token, dropped, and `1.2.3` as an exact
\* version.  "Blanks after the v prefix" is not among the spellings C01 lists, and the README says nothing: undetermined,
\* like the repeated `v` / `=` prefixes.  (Without an operator both readings give `1.2.3`.)
BareV(t) == Drop(t, OpOf(t).n) = <<118>>
DetachedV(toks) == \E i \in 1..(Len(toks) - 1) : BareV(toks[i])
\* one alternative: [det, alt]
ParseAlt(b) ==
  LET toks == Tokens(b, 1, <<>>, <<>>) IN
  IF toks = <<>> THEN [det |-> FALSE, alt |-> <<>>]                       \* empty alternative: not determined
  ELSE IF DetachedV(toks) THEN [det |-> FALSE, alt |-> <<>>]
  ELSE IF \E i \in 1..Len(toks) : toks[i] = Hy THEN
         \* the hyphen form stands alone: partial ' - ' partial
         (IF Len(toks) = 3 /\ toks[2] = Hy THEN
            LET lo == ParseToken(toks[1])  hi == ParseToken(toks[3]) IN
            IF lo.c.op = "" /\ hi.c.op = "" /\ ~lo.big /\ ~hi.big
            THEN [det |-> TRUE, alt |-> AltOf(<< HyphenOf(lo.c.pa, hi.c.pa) >>)]
            \* one side is not a version at all (`1.2.3 - beta`, `beta - 1.2.3`, `>=1.2.3 - beta`): the hyphen form does
            \* not apply, and the lone `-` and the other token are unparseable tokens, dropped
            ELSE IF ~lo.big /\ ~hi.big /\ ((lo.c.op = "garbage") # (hi.c.op = "garbage"))
            THEN [det |-> TRUE, alt |-> AltOf(<< lo.c, GarbageOf(Hy), hi.c >>)]
            ELSE [det |-> FALSE, alt |-> <<>>]
          \* `1.2.3 -` / `- 1.2.3`: the same with nothing on one side
          ELSE IF Len(toks) = 2 /\ (toks[1] = Hy) # (toks[2] = Hy) THEN
            LET k == IF toks[1] = Hy THEN 2 ELSE 1
                c == ParseToken(toks[k]) IN
            IF ~c.big /\ c.c.op # "garbage"
            THEN [det |-> TRUE, alt |-> AltOf(IF k = 1 THEN << c.c, GarbageOf(Hy) >> ELSE << GarbageOf(Hy), c.c >>)]
            ELSE [det |-> FALSE, alt |-> <<>>]
          ELSE [det |-> FALSE, alt |-> <<>>])
  ELSE LET m == MergeOps(toks, 1, <<>>) IN
       IF m.chained \/ DetachedV(m.toks) THEN [det |-> FALSE, alt |-> <<>>]
       ELSE LET ps == [i \in 1..Len(m.toks) |-> ParseToken(m.toks[i])] IN
            IF \E i \in 1..Len(ps) : ps[i].big THEN [det |-> FALSE, alt |-> <<>>]
            ELSE [det |-> TRUE, alt |-> AltOf([i \in 1..Len(ps) |-> ps[i].c])]

MaxDetLen == 200
ParseRangeText(b) ==
  IF Len(b) = 0 \/ Len(b) > MaxDetLen \/ IsSp(b[1]) \/ IsSp(b[Len(b)]) THEN [det |-> FALSE, ast |-> <<>>]
  ELSE LET parts == SplitOr(b, 1, <<>>, <<>>)
           alts == [i \in 1..Len(parts) |-> ParseAlt(parts[i])] IN
       IF \E i \in 1..Len(alts) : ~alts[i].det THEN [det |-> FALSE, ast |-> <<>>]
       ELSE [det |-> TRUE, ast |-> RangeOf([i \in 1..Len(alts) |-> alts[i].alt])]

\* Range::parse postcondition for every recorded call: with the generator's tree if there is one,
\* else with the tree this module computes from the bytes
JRParseFull(e) ==
  JRParse(e) \cup
  (IF "ast" \in DOMAIN e THEN {}
   ELSE LET pr == ParseRangeText(e.text) IN IF pr.det THEN JRParseAst(e, pr.ast) ELSE {})
=============================================================================
