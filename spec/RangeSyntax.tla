----------------------------- MODULE RangeSyntax -----------------------------
(***************************************************************************)
(* npm range texts: abstract syntax (with the spelling choices the crate   *)
(* accepts), rendering to bytes, npm's documented desugaring to primitive  *)
(* comparators, the comparator-list meaning with the prerelease rule, and  *)
(* the postcondition of Range::parse (C01, C03, C17) and of composing      *)
(* texts with blanks and `||` (C02).                                       *)
(*                                                                         *)
(* Transcribed from the node-semver README ("Advanced Range Syntax",       *)
(* "Range Grammar", "Prerelease Tags"), not from the crate.                *)
(*                                                                         *)
(*  component  [t |-> "n", d |-> digits as written] | [t |-> "x", c |-> byte]*)
(*             | [t |-> "abs"]                                             *)
(*  partial    [v, M, m, p, pre, bld, nohy]   pre/bld: lists of raw bytes  *)
(*  comparator [op |-> "" = < <= > >= ~ ~> ^, sp |-> blanks, pa |-> partial]*)
(*             | [op |-> "hyphen", lo |-> partial, hi |-> partial, ls, rs] *)
(*             | [op |-> "garbage", txt |-> bytes]                         *)
(*  alternative [cs |-> comparators, seps |-> blanks between them]         *)
(*  range      [alts |-> alternatives, ors |-> [l, r] blanks around `||`]  *)
(***************************************************************************)
EXTENDS Interval, VersionText

\* ---------------------------------------------------------------- syntax
CNum(d) == [t |-> "n", d |-> d]
CX(c) == [t |-> "x", c |-> c]
CAbs == [t |-> "abs"]
IsNumC(c) == c.t = "n"
PartialOf(M, m, p, pre, bld) == [v |-> FALSE, M |-> M, m |-> m, p |-> p, pre |-> pre, bld |-> bld, nohy |-> FALSE]
CmpOf(op, pa) == [op |-> op, sp |-> <<>>, pa |-> pa]
HyphenOf(lo, hi) == [op |-> "hyphen", lo |-> lo, hi |-> hi, ls |-> <<32>>, rs |-> <<32>>]   \* ls, rs: the blanks around the dash
GarbageOf(txt) == [op |-> "garbage", txt |-> txt]
AltOf(cs) == [cs |-> cs, seps |-> [i \in 1..(Len(cs) - 1) |-> <<32>>]]
RangeOf(alts) == [alts |-> alts, ors |-> [i \in 1..(Len(alts) - 1) |-> [l |-> <<>>, r |-> <<>>]]]

\* ---------------------------------------------------------------- rendering
RECURSIVE JoinRaw(_, _)
JoinRaw(l, i) == IF i > Len(l) THEN <<>> ELSE (IF i > 1 THEN <<46>> ELSE <<>>) \o l[i] \o JoinRaw(l, i + 1)
RenderComp(c) == CASE c.t = "n" -> DigitsToBytes(c.d) [] c.t = "x" -> <<c.c>> [] OTHER -> <<>>
RenderPartial(pa) ==
  (IF pa.v THEN <<118>> ELSE <<>>) \o RenderComp(pa.M)
  \o (IF pa.m.t = "abs" THEN <<>> ELSE <<46>> \o RenderComp(pa.m)
      \o (IF pa.p.t = "abs" THEN <<>> ELSE <<46>> \o RenderComp(pa.p)
          \o (IF pa.pre = <<>> THEN <<>> ELSE (IF pa.nohy THEN <<>> ELSE <<45>>) \o JoinRaw(pa.pre, 1))
          \o (IF pa.bld = <<>> THEN <<>> ELSE <<43>> \o JoinRaw(pa.bld, 1))))
OpBytes(op) == CASE op = "" -> <<>> [] op = "=" -> <<61>> [] op = "<" -> <<60>> [] op = "<=" -> <<60, 61>>
                 [] op = ">" -> <<62>> [] op = ">=" -> <<62, 61>> [] op = "~" -> <<126>> [] op = "~>" -> <<126, 62>>
                 [] op = "^" -> <<94>>
RenderCmp(c) == CASE c.op = "garbage" -> c.txt
                  [] c.op = "hyphen" -> RenderPartial(c.lo) \o c.ls \o <<45>> \o c.rs \o RenderPartial(c.hi)
                  [] OTHER -> OpBytes(c.op) \o c.sp \o RenderPartial(c.pa)
RECURSIVE RenderAltFrom(_, _)
RenderAltFrom(a, i) == IF i > Len(a.cs) THEN <<>>
                       ELSE (IF i > 1 THEN a.seps[i - 1] ELSE <<>>) \o RenderCmp(a.cs[i]) \o RenderAltFrom(a, i + 1)
RenderAlt(a) == RenderAltFrom(a, 1)
RECURSIVE RenderRangeFrom(_, _)
RenderRangeFrom(r, i) == IF i > Len(r.alts) THEN <<>>
                         ELSE (IF i > 1 THEN r.ors[i - 1].l \o <<124, 124>> \o r.ors[i - 1].r ELSE <<>>)
                              \o RenderAlt(r.alts[i]) \o RenderRangeFrom(r, i + 1)
RenderRange(r) == RenderRangeFrom(r, 1)

\* ---------------------------------------------------------------- desugaring (npm README)
Cmp(op, v) == [op |-> op, v |-> v]
ND(c) == Norm(c.d)
xM(pa) == ~IsNumC(pa.M)
xm(pa) == xM(pa) \/ ~IsNumC(pa.m)
xp(pa) == xm(pa) \/ ~IsNumC(pa.p)
Vz(M, m, p) == V3(M, m, p)
Vz0(M, m, p) == V4(M, m, p, <<N0>>)
ANYC == << Cmp(">=", Vz(Zero, Zero, Zero)) >>      \* documented: * := >=0.0.0
NONEC == << Cmp("<", Vz0(Zero, Zero, Zero)) >>     \* nothing is below 0.0.0-0
\* a fully specified partial denotes this version (build metadata is not part of a comparator)
Full(pa) == V4(ND(pa.M), ND(pa.m), ND(pa.p), IdsOf(pa.pre))
XRange(pa) == IF xM(pa) THEN ANYC
              ELSE IF xm(pa) THEN << Cmp(">=", Vz(ND(pa.M), Zero, Zero)), Cmp("<", Vz0(NumSucc(ND(pa.M)), Zero, Zero)) >>
              ELSE << Cmp(">=", Vz(ND(pa.M), ND(pa.m), Zero)), Cmp("<", Vz0(ND(pa.M), NumSucc(ND(pa.m)), Zero)) >>
(* Named deviations (known findings; off by default).  A deviation is a precise description of a
   defect of the implementation that is recorded in /verif/known_findings.json; a failing case is
   attributed to it only if the specification WITH the deviation reproduces every observation.
     "LtMajorNoDashZero"  `<M`, `<M.x`, `<M.x.x` desugar to `<M.0.0` instead of `<M.0.0-0`
                          (src/range.rs primitive(): (LessThan, Partial{minor: None, ..}) arm)
     "CaretZeroNoLowerBound"  `^0`, `^0.x`, `^0.x.x` desugar to `<1.0.0-0` without the `>=0.0.0`
                          (src/range.rs caret(): Partial{major: Some(0), minor: None, ..} arm) *)
DesugarOpD(op, pa, dev) ==
  CASE op \in {"", "="} -> IF xp(pa) THEN XRange(pa) ELSE << Cmp("=", Full(pa)) >>
    [] op = ">"  -> IF xM(pa) THEN NONEC
                    ELSE IF xm(pa) THEN << Cmp(">=", Vz(NumSucc(ND(pa.M)), Zero, Zero)) >>
                    ELSE IF xp(pa) THEN << Cmp(">=", Vz(ND(pa.M), NumSucc(ND(pa.m)), Zero)) >>
                    ELSE << Cmp(">", Full(pa)) >>
    [] op = ">=" -> IF xM(pa) THEN ANYC
                    ELSE IF xm(pa) THEN << Cmp(">=", Vz(ND(pa.M), Zero, Zero)) >>
                    ELSE IF xp(pa) THEN << Cmp(">=", Vz(ND(pa.M), ND(pa.m), Zero)) >>
                    ELSE << Cmp(">=", Full(pa)) >>
    [] op = "<"  -> IF xM(pa) THEN NONEC
                    ELSE IF xm(pa) THEN (IF "LtMajorNoDashZero" \in dev THEN << Cmp("<", Vz(ND(pa.M), Zero, Zero)) >>
                                         ELSE << Cmp("<", Vz0(ND(pa.M), Zero, Zero)) >>)
                    ELSE IF xp(pa) THEN << Cmp("<", Vz0(ND(pa.M), ND(pa.m), Zero)) >>
                    ELSE << Cmp("<", Full(pa)) >>
    [] op = "<=" -> IF xM(pa) THEN ANYC
                    ELSE IF xm(pa) THEN << Cmp("<", Vz0(NumSucc(ND(pa.M)), Zero, Zero)) >>
                    ELSE IF xp(pa) THEN << Cmp("<", Vz0(ND(pa.M), NumSucc(ND(pa.m)), Zero)) >>
                    ELSE << Cmp("<=", Full(pa)) >>
    [] op \in {"~", "~>"} -> IF xp(pa) THEN XRange(pa)
                    ELSE << Cmp(">=", Full(pa)), Cmp("<", Vz0(ND(pa.M), NumSucc(ND(pa.m)), Zero)) >>
    [] op = "^"  -> IF xM(pa) THEN ANYC
                    ELSE IF xm(pa) THEN (IF "CaretZeroNoLowerBound" \in dev /\ ND(pa.M) = Zero
                                         THEN << Cmp("<", Vz0(NumSucc(Zero), Zero, Zero)) >> ELSE XRange(pa))
                    ELSE IF xp(pa) THEN (IF ND(pa.M) = Zero THEN XRange(pa)
                                         ELSE << Cmp(">=", Vz(ND(pa.M), ND(pa.m), Zero)), Cmp("<", Vz0(NumSucc(ND(pa.M)), Zero, Zero)) >>)
                    ELSE IF ND(pa.M) # Zero THEN << Cmp(">=", Full(pa)), Cmp("<", Vz0(NumSucc(ND(pa.M)), Zero, Zero)) >>
                    ELSE IF ND(pa.m) # Zero THEN << Cmp(">=", Full(pa)), Cmp("<", Vz0(Zero, NumSucc(ND(pa.m)), Zero)) >>
                    ELSE << Cmp(">=", Full(pa)), Cmp("<", Vz0(Zero, Zero, NumSucc(ND(pa.p)))) >>
DesugarOp(op, pa) == DesugarOpD(op, pa, {})
HyLo(pa) == IF xM(pa) THEN <<>> ELSE IF xm(pa) THEN << Cmp(">=", Vz(ND(pa.M), Zero, Zero)) >>
            ELSE IF xp(pa) THEN << Cmp(">=", Vz(ND(pa.M), ND(pa.m), Zero)) >> ELSE << Cmp(">=", Full(pa)) >>
HyHi(pa) == IF xM(pa) THEN <<>> ELSE IF xm(pa) THEN << Cmp("<", Vz0(NumSucc(ND(pa.M)), Zero, Zero)) >>
            ELSE IF xp(pa) THEN << Cmp("<", Vz0(ND(pa.M), NumSucc(ND(pa.m)), Zero)) >> ELSE << Cmp("<=", Full(pa)) >>
DesugarHyphen(lo, hi) == LET c == HyLo(lo) \o HyHi(hi) IN IF c = <<>> THEN ANYC ELSE c

\* one written comparator -> list of primitive comparators; garbage -> <<>>
DesugarD(c, dev) == CASE c.op = "garbage" -> <<>>
                      [] c.op = "hyphen" -> DesugarHyphen(c.lo, c.hi)
                      [] OTHER -> DesugarOpD(c.op, c.pa, dev)
Desugar(c) == DesugarD(c, {})
IsValidCmp(c) == c.op # "garbage"
RECURSIVE DesugarAltFrom(_, _, _)
DesugarAltFrom(a, i, dev) == IF i > Len(a.cs) THEN <<>> ELSE DesugarD(a.cs[i], dev) \o DesugarAltFrom(a, i + 1, dev)
DesugarAltD(a, dev) == DesugarAltFrom(a, 1, dev)
DesugarAlt(a) == DesugarAltD(a, {})
HasValid(a) == \E i \in 1..Len(a.cs) : IsValidCmp(a.cs[i])

\* ---------------------------------------------------------------- meaning (node's testSet)
Test(c, v) == LET r == VCmp(v, c.v) IN
  CASE c.op = "="  -> r = 0
    [] c.op = ">"  -> r = 1
    [] c.op = ">=" -> r # -1
    [] c.op = "<"  -> r = -1
    [] c.op = "<=" -> r # 1
SatList(cs, v) == /\ \A i \in 1..Len(cs) : Test(cs[i], v)
                  /\ (IsPre(v) => \E i \in 1..Len(cs) : IsPre(cs[i].v) /\ SameTuple(cs[i].v, v))
\* an alternative with no valid comparator is dropped (it admits nothing)
MeansAltD(a, v, dev) == HasValid(a) /\ SatList(DesugarAltD(a, dev), v)
MeansD(r, v, dev) == \E i \in 1..Len(r.alts) : MeansAltD(r.alts[i], v, dev)
MeansAlt(a, v) == MeansAltD(a, v, {})
Means(r, v) == MeansD(r, v, {})
KnownDeviations == {"LtMajorNoDashZero", "CaretZeroNoLowerBound"}
DevName(S) == IF S = {"LtMajorNoDashZero"} THEN "LtMajorNoDashZero"
              ELSE IF S = {"CaretZeroNoLowerBound"} THEN "CaretZeroNoLowerBound"
              ELSE "CaretZeroNoLowerBound+LtMajorNoDashZero"

\* ---------------------------------------------------------------- the crate's representation: one interval per alternative
IvOf(c) == CASE c.op = "="  -> Iv(Inc(c.v), Inc(c.v))
             [] c.op = ">"  -> Iv(Exc(c.v), Unb)
             [] c.op = ">=" -> Iv(Inc(c.v), Unb)
             [] c.op = "<"  -> Iv(Unb, Exc(c.v))
             [] c.op = "<=" -> Iv(Unb, Inc(c.v))
RECURSIVE FoldIv(_, _, _)
FoldIv(cs, acc, i) == IF i > Len(cs) THEN acc
                      ELSE FoldIv(cs, Iv(MaxLo(acc.lo, IvOf(cs[i]).lo), MinUp(acc.up, IvOf(cs[i]).up)), i + 1)
\* <<>> when the conjunction is empty as a cut interval
Fold(cs) == LET iv == FoldIv(cs, AnyIv, 1) IN New(iv.lo, iv.up)
FoldAlt(a) == IF HasValid(a) THEN Fold(DesugarAlt(a)) ELSE <<>>
RECURSIVE FoldRangeFrom(_, _)
FoldRangeFrom(r, i) == IF i > Len(r.alts) THEN <<>> ELSE FoldAlt(r.alts[i]) \o FoldRangeFrom(r, i + 1)
FoldRange(r) == FoldRangeFrom(r, 1)

\* nothing at all satisfies the text
Unsat(r) == MinVersion(FoldRange(r)) = <<>>
NoValid(r) == \A i \in 1..Len(r.alts) : ~HasValid(r.alts[i])
MayFail(r) == NoValid(r) \/ Unsat(r)

\* every bound of the desugaring is a representable version (components within MAX_SAFE_INTEGER);
\* texts whose desugaring overflows (`>900719925474099`) are outside the quantifier of C01
WfVer(v) == FitsSafe(v.M) /\ FitsSafe(v.m) /\ FitsSafe(v.p)
WfAlt(a) == LET cs == DesugarAlt(a) IN \A i \in 1..Len(cs) : WfVer(cs[i].v)
WfRange(r) == \A i \in 1..Len(r.alts) : WfAlt(r.alts[i])

\* versions that were WRITTEN with a prerelease tag in an alternative (for C03); the synthetic `-0`
\* upper bounds of the desugaring are not written tags
PaTag(pa) == IF ~xp(pa) /\ pa.pre # <<>> THEN {Full(pa)} ELSE {}
CmpTags(c) == CASE c.op = "garbage" -> {}
                [] c.op = "hyphen" -> PaTag(c.lo) \cup PaTag(c.hi)
                [] OTHER -> PaTag(c.pa)
Tags(a) == UNION {CmpTags(a.cs[i]) : i \in 1..Len(a.cs)}

\* probe versions for a text: around every bound of its desugaring
RECURSIVE CmpEnds(_, _)
CmpEnds(cs, i) == IF i > Len(cs) THEN {} ELSE {cs[i].v} \cup CmpEnds(cs, i + 1)
AstEnds(r) == UNION {CmpEnds(DesugarAlt(r.alts[i]), 1) : i \in 1..Len(r.alts)}

\* ---------------------------------------------------------------- README examples (pin the transcription)
D1(n) == FromNat(n)
PN(a, b, c) == PartialOf(CNum(D1(a)), CNum(D1(b)), CNum(D1(c)), <<>>, <<>>)
PN2(a, b) == PartialOf(CNum(D1(a)), CNum(D1(b)), CAbs, <<>>, <<>>)
PN1(a) == PartialOf(CNum(D1(a)), CAbs, CAbs, <<>>, <<>>)
PX2(a, b) == PartialOf(CNum(D1(a)), CNum(D1(b)), CX(120), <<>>, <<>>)
PX1(a) == PartialOf(CNum(D1(a)), CX(120), CAbs, <<>>, <<>>)
PStar == PartialOf(CX(42), CAbs, CAbs, <<>>, <<>>)
PPre(a, b, c, pre) == PartialOf(CNum(D1(a)), CNum(D1(b)), CNum(D1(c)), pre, <<>>)
VN(a, b, c) == V3(D1(a), D1(b), D1(c))
VN0(a, b, c) == V4(D1(a), D1(b), D1(c), <<N0>>)
beta2 == << <<98, 101, 116, 97>>, <<50>> >>
VBeta2(a, b, c) == V4(D1(a), D1(b), D1(c), <<TxtId(<<98, 101, 116, 97>>), NumId(D1(2))>>)
\* hyphen ranges
ASSUME DesugarHyphen(PN(1, 2, 3), PN(2, 3, 4)) = << Cmp(">=", VN(1, 2, 3)), Cmp("<=", VN(2, 3, 4)) >>
ASSUME DesugarHyphen(PN2(1, 2), PN(2, 3, 4)) = << Cmp(">=", VN(1, 2, 0)), Cmp("<=", VN(2, 3, 4)) >>
ASSUME DesugarHyphen(PN(1, 2, 3), PN2(2, 3)) = << Cmp(">=", VN(1, 2, 3)), Cmp("<", VN0(2, 4, 0)) >>
ASSUME DesugarHyphen(PN(1, 2, 3), PN1(2)) = << Cmp(">=", VN(1, 2, 3)), Cmp("<", VN0(3, 0, 0)) >>
\* x-ranges
ASSUME DesugarOp("", PStar) = << Cmp(">=", VN(0, 0, 0)) >>
ASSUME DesugarOp("", PX1(1)) = << Cmp(">=", VN(1, 0, 0)), Cmp("<", VN0(2, 0, 0)) >>
ASSUME DesugarOp("", PX2(1, 2)) = << Cmp(">=", VN(1, 2, 0)), Cmp("<", VN0(1, 3, 0)) >>
ASSUME DesugarOp("", PN1(1)) = DesugarOp("", PX1(1)) /\ DesugarOp("", PN2(1, 2)) = DesugarOp("", PX2(1, 2))
\* tilde ranges
ASSUME DesugarOp("~", PN(1, 2, 3)) = << Cmp(">=", VN(1, 2, 3)), Cmp("<", VN0(1, 3, 0)) >>
ASSUME DesugarOp("~", PN2(1, 2)) = << Cmp(">=", VN(1, 2, 0)), Cmp("<", VN0(1, 3, 0)) >>
ASSUME DesugarOp("~", PN1(1)) = << Cmp(">=", VN(1, 0, 0)), Cmp("<", VN0(2, 0, 0)) >>
ASSUME DesugarOp("~", PN(0, 2, 3)) = << Cmp(">=", VN(0, 2, 3)), Cmp("<", VN0(0, 3, 0)) >>
ASSUME DesugarOp("~", PN2(0, 2)) = << Cmp(">=", VN(0, 2, 0)), Cmp("<", VN0(0, 3, 0)) >>
ASSUME DesugarOp("~", PN1(0)) = << Cmp(">=", VN(0, 0, 0)), Cmp("<", VN0(1, 0, 0)) >>
ASSUME DesugarOp("~", PPre(1, 2, 3, beta2)) = << Cmp(">=", VBeta2(1, 2, 3)), Cmp("<", VN0(1, 3, 0)) >>
\* caret ranges
ASSUME DesugarOp("^", PN(1, 2, 3)) = << Cmp(">=", VN(1, 2, 3)), Cmp("<", VN0(2, 0, 0)) >>
ASSUME DesugarOp("^", PN(0, 2, 3)) = << Cmp(">=", VN(0, 2, 3)), Cmp("<", VN0(0, 3, 0)) >>
ASSUME DesugarOp("^", PN(0, 0, 3)) = << Cmp(">=", VN(0, 0, 3)), Cmp("<", VN0(0, 0, 4)) >>
ASSUME DesugarOp("^", PPre(1, 2, 3, beta2)) = << Cmp(">=", VBeta2(1, 2, 3)), Cmp("<", VN0(2, 0, 0)) >>
ASSUME DesugarOp("^", PPre(0, 0, 3, beta2)) = << Cmp(">=", VBeta2(0, 0, 3)), Cmp("<", VN0(0, 0, 4)) >>
ASSUME DesugarOp("^", PX2(1, 2)) = << Cmp(">=", VN(1, 2, 0)), Cmp("<", VN0(2, 0, 0)) >>
ASSUME DesugarOp("^", PX2(0, 0)) = << Cmp(">=", VN(0, 0, 0)), Cmp("<", VN0(0, 1, 0)) >>
ASSUME DesugarOp("^", PN2(0, 0)) = << Cmp(">=", VN(0, 0, 0)), Cmp("<", VN0(0, 1, 0)) >>
ASSUME DesugarOp("^", PX1(1)) = << Cmp(">=", VN(1, 0, 0)), Cmp("<", VN0(2, 0, 0)) >>
ASSUME DesugarOp("^", PX1(0)) = << Cmp(">=", VN(0, 0, 0)), Cmp("<", VN0(1, 0, 0)) >>
\* primitive operators on partials (node-semver's stated intent; `<1.2` -> `<1.2.0-0` is pinned by the crate's own suite)
ASSUME DesugarOp(">", PN1(1)) = << Cmp(">=", VN(2, 0, 0)) >> /\ DesugarOp(">", PN2(1, 2)) = << Cmp(">=", VN(1, 3, 0)) >>
ASSUME DesugarOp("<=", PX2(0, 7)) = << Cmp("<", VN0(0, 8, 0)) >> /\ DesugarOp("<", PN2(1, 2)) = << Cmp("<", VN0(1, 2, 0)) >>
\* prerelease tags: 1.2.3-alpha.7 satisfies >1.2.3-alpha.3, 3.4.5-alpha.9 does not
alpha(n) == <<TxtId(<<97, 108, 112, 104, 97>>), NumId(D1(n))>>
ASSUME SatList(<< Cmp(">", V4(D1(1), D1(2), D1(3), alpha(3))) >>, V4(D1(1), D1(2), D1(3), alpha(7)))
ASSUME ~SatList(<< Cmp(">", V4(D1(1), D1(2), D1(3), alpha(3))) >>, V4(D1(3), D1(4), D1(5), alpha(9)))
ASSUME SatList(<< Cmp(">", V4(D1(1), D1(2), D1(3), alpha(3))) >>, VN(3, 4, 5))
\* rendering
ASSUME RenderRange(RangeOf(<< AltOf(<< CmpOf(">=", PN(1, 2, 3)), CmpOf("<", PN2(2, 0)) >>), AltOf(<< CmpOf("^", PX1(0)) >>) >>))
         = <<62, 61, 49, 46, 50, 46, 51, 32, 60, 50, 46, 48, 124, 124, 94, 48, 46, 120>>

\* C03 for any number of alternatives, order-free (only evaluated when the observations disagree with the meaning
\* and no named deviation explains them):
\*  - a prerelease was admitted although no alternative was written with a tag on its tuple;
\*  - a prerelease was refused although it lies within the bounds the crate built, and an alternative as written
\*    both contains it and carries a tag on its tuple ("decided by the bounds alone").
C03Alts(e, r, O) ==
  LET tagged(i, v) == \E tg \in Tags(r.alts[i]) : SameTuple(tg, v)
      within(i, v) == HasValid(r.alts[i]) /\ LET cs == DesugarAlt(r.alts[i]) IN \A j \in 1..Len(cs) : Test(cs[j], v)
  IN Chk(\A k \in Idx(O) : (IsPre(O[k].v) /\ O[k].r) => \E i \in 1..Len(r.alts) : tagged(i, O[k].v),
         "C03:admitted-without-written-tag")
     \cup Chk(\A k \in Idx(O) : (IsPre(O[k].v) /\ ~O[k].r /\ RInB(e.val, O[k].v))
                                   => ~\E i \in 1..Len(r.alts) : within(i, O[k].v) /\ tagged(i, O[k].v),
               "C03:refused-despite-written-tag")
     \* the same against the bounds as written (a tag dropped from a bound shows up here, whatever bounds were built)
     \cup Chk(\A k \in Idx(O) : (IsPre(O[k].v) /\ ~O[k].r)
                                   => ~\E i \in 1..Len(r.alts) : within(i, O[k].v) /\ tagged(i, O[k].v),
               "C03:refused-within-written-bounds")

\* ---------------------------------------------------------------- Range::parse postcondition
\* clauses that need the syntax tree r of the text (given with the case, or computed by RangeText.tla)
JRParseAst(e, r) ==
  IF ~WfRange(r) THEN {}
  ELSE IF e.out = "err" THEN
         Chk(MayFail(r), "C01:rejected-satisfiable-text")
    \cup Chk(NoValid(r) => e.err.kind = "NoValidRanges", "C17:kind-novalidranges")
  ELSE
    \* only versions of the quantifier: components within MAX_SAFE_INTEGER
    LET O == SelectSeq(e.obs, LAMBDA o : WfVer(o.v)) IN
         (IF \A k \in Idx(O) : O[k].r = Means(r, O[k].v) THEN {}
          ELSE \* does the specification with some named deviation(s) reproduce every observation?
               LET devs == {S \in (SUBSET KnownDeviations) \ {{}} : \A k \in Idx(O) : O[k].r = MeansD(r, O[k].v, S)}
                   least == {S \in devs : \A T \in devs : Cardinality(S) <= Cardinality(T)} IN
               IF devs = {} THEN {"C01:satisfies"} \cup C03Alts(e, r, O) ELSE {"C01:satisfies@" \o DevName(S) : S \in least})
    \cup Chk(\A k \in Idx(O) : O[k].vr = O[k].r, "C01:version-satisfies-agrees")
    \cup Chk(~NoValid(r), "C01:accepted-without-valid-comparator")
    \cup (IF Len(r.alts) = 1 /\ Len(e.val) <= 1 THEN
            \* C03, phrased as the statement is: given the bounds the crate built
            Chk(\A k \in Idx(O) :
                  O[k].r <=> (RInB(e.val, O[k].v) /\ (~IsPre(O[k].v) \/ \E tg \in Tags(r.alts[1]) : SameTuple(tg, O[k].v))),
                "C03:gate-by-written-tags")
          ELSE {})
    \cup Chk(\A k \in Idx(O) : \A j \in Idx(O) : (Key(O[k].v) = Key(O[j].v)) => (O[k].r = O[j].r), "C03:build-ignored")

JRParse(e) ==
  LET t == e.text IN
  \* ---- C17 / C06, for every recorded parse
     (IF e.out = "err" THEN JErr(t, e.err) \cup Chk(e.err.kind # "MaxLengthError", "C17:kind-maxlength-from-range-parse")
                            \* an empty or blank-only text has no valid comparator: if it is refused, then with that kind
                            \cup Chk((\A i \in 1..Len(t) : t[i] \in {32, 9}) => e.err.kind = "NoValidRanges", "C17:kind-novalidranges")
      ELSE {})
  \cup Chk(e.us <= 50000 + 100 * Len(t), "C06:time-budget")
  \cup (IF e.out = "ok" THEN Chk(e.fromstr_eq, "X:fromstr-agrees") ELSE {})
  \* ---- with a syntax tree given by the generator: C01, C03
  \cup (IF "ast" \in DOMAIN e THEN
          (IF RenderRange(e.ast) # t THEN {"TOOL:render-mismatch"} ELSE JRParseAst(e, e.ast))
        ELSE {})
=============================================================================
