--------------------------------- MODULE Api ---------------------------------
(***************************************************************************)
(* The API-session state machine of nodejs-semver and the postcondition of *)
(* every public call.                                                      *)
(*                                                                         *)
(* State: a register file `rr` of ranges the client holds (each a list of  *)
(* intervals exactly as the crate stores them, or Nil) and `org`, how each *)
(* register was produced.  One event = one public call, recorded at its    *)
(* return.  `Step(rr, org, e)` is the next register file; `Judge(rr, org,  *)
(* e)` is the set of property clauses the call's observed result violates  *)
(* (empty = the call conforms).  There is no event for "panicked" or "did  *)
(* not return": every call is total (C06), so such an event is itself a    *)
(* violation.                                                              *)
(*                                                                         *)
(* Every clause is tagged "Cnn:clause" after the property it comes from.   *)
(***************************************************************************)
EXTENDS Interval, VersionText, RangeSyntax, RangeText

NREG == 9
Nil == <<>>
Regs == 1..NREG
InitRegs == [i \in Regs |-> Nil]
InitOrg == [i \in Regs |-> "none"]


\* ------------------------------------------------------------------ C07
JIsect(A, B, e) ==
  LET R == e.val
      P == Probes(Ends(A) \cup Ends(B) \cup Ends(R))
      O == e.obs
  IN IF e.some THEN
         Chk(\A v \in P : RInB(R, v) <=> (RInB(A, v) /\ RInB(B, v)), "C07:bounds")
    \cup Chk(\A v \in P : (IsPre(v) /\ RSat(A, v) /\ RSat(B, v)) => RSat(R, v), "C07:pre-both")
    \cup Chk(\A v \in P : (IsPre(v) /\ RSat(R, v)) => (RInB(A, v) /\ RInB(B, v) /\ (RSat(A, v) \/ RSat(B, v))), "C07:pre-result")
    \cup Chk(\A k \in Idx(O) : ~IsPre(O[k].v) => (O[k].r <=> (O[k].a /\ O[k].b)), "C07:obs-release")
    \cup Chk(\A k \in Idx(O) : (IsPre(O[k].v) /\ O[k].a /\ O[k].b) => O[k].r, "C07:obs-pre-both")
    \cup Chk(\A k \in Idx(O) : (IsPre(O[k].v) /\ O[k].r) => (RInB(A, O[k].v) /\ RInB(B, O[k].v) /\ (O[k].a \/ O[k].b)), "C07:obs-pre-result")
     ELSE
         Chk(\A v \in P : ~(RInB(A, v) /\ RInB(B, v)), "C07:none")
    \cup Chk(\A k \in Idx(O) : ~(O[k].a /\ O[k].b), "C07:obs-none")

\* ------------------------------------------------------------------ C08
JDiff(A, B, e) ==
  LET R == e.val
      I == e.ival
      P == Probes(Ends(A) \cup Ends(B) \cup Ends(R) \cup Ends(I))
      O == e.obs
  IN (IF e.some THEN
         Chk(\A v \in P : RInB(R, v) <=> (RInB(A, v) /\ ~RInB(B, v)), "C08:bounds")
    \cup Chk(\A k \in Idx(O) : ~IsPre(O[k].v) => (O[k].r <=> (O[k].a /\ ~O[k].b)), "C08:obs-release")
      ELSE
         Chk(\A v \in P : RInB(A, v) => RInB(B, v), "C08:none")
    \cup Chk(\A k \in Idx(O) : ~IsPre(O[k].v) => (O[k].a => O[k].b), "C08:obs-none"))
    \cup Chk(\A v \in P : ~(RInB(R, v) /\ RInB(I, v)), "C08:partition-disjoint")
    \cup Chk(\A v \in P : RInB(A, v) <=> (RInB(R, v) \/ RInB(I, v)), "C08:partition-cover")

\* ------------------------------------------------------------------ C09
JAny(A, B, e) ==
  LET P == Probes(Ends(A) \cup Ends(B)) IN
       Chk(e.res = e.isome, "C09:equals-intersect-some")
  \cup Chk(e.res = e.rev, "C09:symmetric")
  \cup Chk(~e.res => \A v \in P : ~(RInB(A, v) /\ RInB(B, v)), "C09:false-but-common-version")
  \cup Chk(AllowsAnyVersion(A, B) => e.res, "C09:true-when-overlap")
  \cup Chk(~AllowsAny(A, B) => ~e.res, "C09:touching-or-apart")

\* ------------------------------------------------------------------ C10
JAll(A, B, e) ==
  LET P == Probes(Ends(A) \cup Ends(B)) IN
       Chk((Len(B) = 1 /\ e.res) => \A v \in P : RInB(B, v) => RInB(A, v), "C10:sound")
  \cup Chk((Len(B) = 1 /\ e.res) => e.any, "C10:implies-any")
  \cup Chk(e.a = e.b => e.res, "C10:reflexive")
  \cup Chk((Len(A) = 1 /\ Len(B) = 1) => (e.res <=> e.dnone), "C10:iff-difference-none")

\* ------------------------------------------------------------------ C11
\* versions outside the quantifier (a component above MAX_SAFE_INTEGER, e.g. the successor of x.y.MAX) neither
\* count as lower candidates nor pin the value: `>1.2.MAX` may answer 1.2.(MAX+1) or carry to 1.3.0
Carry(E) == UNION { { V3(v.M, NumSucc(v.m), Zero), V4(v.M, NumSucc(v.m), Zero, <<N0>>),
                      V3(NumSucc(v.M), Zero, Zero), V4(NumSucc(v.M), Zero, Zero, <<N0>>) } : v \in E }
JMinv(A, e) ==
  IF e.some THEN
    LET m == e.val
        E == Ends(A) \cup {NoBuild(m)}
        P == Probes(E) \cup Carry(E)
        s == MinVersion(A) IN
         Chk(e.sat, "C11:obs-satisfies")
    \cup Chk(RSat(A, m), "C11:satisfies")
    \cup Chk(\A v \in P : (WfVer(v) /\ VLt(v, m)) => ~RSat(A, v), "C11:least")
    \cup Chk(s # <<>> /\ (WfVer(s[1]) => Key(s[1]) = Key(m)), "C11:value")
  ELSE
    LET P == Probes(Ends(A)) \cup Carry(Ends(A))
        s == MinVersion(A) IN
         Chk(\A v \in P : WfVer(v) => ~RSat(A, v), "C11:none-but-satisfiable")
    \cup Chk(s = <<>> \/ ~WfVer(s[1]), "C11:value")

\* ------------------------------------------------------------------ C03 (given the bounds)
JSat(A, e) ==
  LET O == e.obs IN
       Chk(\A k \in Idx(O) : IsPre(O[k].v) => (O[k].r = RSat(A, O[k].v)), "C03:prerelease-gate")
  \cup Chk(\A k \in Idx(O) : ~IsPre(O[k].v) => (O[k].r = RInB(A, O[k].v)), "C03:release-unaffected")
  \cup Chk(\A k \in Idx(O) : O[k].vr = O[k].r, "C03:version-satisfies-agrees")
  \cup Chk(\A k \in Idx(O) : \A j \in Idx(O) : (Key(O[k].v) = Key(O[j].v)) => (O[k].r = O[j].r), "C03:build-ignored")

\* ------------------------------------------------------------------ C02
\* what `a b` must admit, given what a and b (one alternative each) admit and the bounds they built
SatBoth(A, B, v) == IF IsPre(v) THEN RInB(A, v) /\ RInB(B, v) /\ (RSat(A, v) \/ RSat(B, v))
                    ELSE RSat(A, v) /\ RSat(B, v)
JConcat(e) ==
  LET O == e.obs IN
  IF e.oa # "ok" \/ e.ob # "ok" THEN {}          \* premise: both texts parse
  ELSE IF e.kind = "or" THEN
         Chk(e.oab = "ok" /\ e.oba = "ok", "C02:or-fails-to-parse")
    \cup Chk(e.oab = "ok" => \A k \in Idx(O) : O[k].ab = (O[k].a \/ O[k].b), "C02:or-is-union")
    \cup Chk(e.oba = "ok" => \A k \in Idx(O) : O[k].ba = (O[k].a \/ O[k].b), "C02:or-order")
  ELSE IF Len(e.A) # 1 \/ Len(e.B) # 1 THEN {"C02:and-widens"}  \* a text without `||` that parses to several alternatives has widened to a union
  ELSE
    LET P == Probes(Ends(e.A) \cup Ends(e.B)) IN
         (IF e.oab = "ok" THEN
              Chk(\A k \in Idx(O) : ~IsPre(O[k].v) => (O[k].ab = (O[k].a /\ O[k].b)), "C02:and-release")
         \cup Chk(\A k \in Idx(O) : IsPre(O[k].v) =>
                      (O[k].ab = (RInB(e.A, O[k].v) /\ RInB(e.B, O[k].v) /\ (O[k].a \/ O[k].b))), "C02:and-prerelease")
          ELSE
              Chk(\A v \in P : ~SatBoth(e.A, e.B, v), "C02:and-rejected-but-satisfiable")
         \cup Chk(\A k \in Idx(O) : ~IsPre(O[k].v) => ~(O[k].a /\ O[k].b), "C02:and-rejected-but-satisfiable"))
    \cup Chk(e.oab = e.oba, "C02:and-order")
    \cup Chk((e.oab = "ok" /\ e.oba = "ok") => \A k \in Idx(O) : O[k].ab = O[k].ba, "C02:and-order")
    \* never widens: whatever `a b` admits lies within both
    \cup Chk(e.oab = "ok" => \A v \in Probes(Ends(e.A) \cup Ends(e.B) \cup Ends(e.AB)) :
                                 RSat(e.AB, v) => (RInB(e.A, v) /\ RInB(e.B, v)), "C02:and-widens")

\* ------------------------------------------------------------------ C15
\* an identity of the set algebra that the session's registers must honour (Nil admits nothing)
JIdent(L, R, e) ==
  LET P == Probes(Ends(L) \cup Ends(R))
      O == e.obs IN
       Chk(e.lnil = (L = Nil) /\ e.rnil = (R = Nil), "TOOL:register-tracking")
  \cup (IF e.kind = "eq" THEN
            Chk(\A v \in P : RInB(L, v) <=> RInB(R, v), "C15:identity")
       \cup Chk(\A k \in Idx(O) : ~IsPre(O[k].v) => (O[k].l = O[k].r), "C15:identity-obs")
        ELSE
            Chk(\A v \in P : ~RInB(L, v), "C15:must-be-empty")
       \cup Chk(\A k \in Idx(O) : ~O[k].l, "C15:must-be-empty-obs"))

\* ------------------------------------------------------------------ C13
Quote(t) == <<34>> \o t \o <<34>>
HasAnyShape(A) == \E i \in Idx(A) : A[i] = AnyIv
(* Named deviation "BoundAboveMaxSafe" (known finding): desugaring increments a component that is already
   MAX_SAFE_INTEGER (`1.900719925474099`, `^900719925474099`, `>900719925474099`), so the range holds a
   bound whose version the parser itself rejects; printed and re-parsed, every comparator carrying such a
   version is dropped as an unparseable token.  DevReparse(A) is exactly what the re-parse then yields. *)
Over(b) == b.k # "unb" /\ ~WfVer(b.v)
HasOver(A) == \E i \in Idx(A) : Over(A[i].lo) \/ Over(A[i].up)
DevIv(iv) == LET lo == IF Over(iv.lo) THEN Unb ELSE iv.lo
                 up == IF Over(iv.up) THEN Unb ELSE iv.up
             IN IF lo = Unb /\ up = Unb THEN <<>>
                ELSE IF iv.lo.k = "inc" /\ iv.up.k = "inc" /\ VEq(iv.lo.v, iv.up.v) /\ Over(iv.lo) THEN <<>>
                ELSE <<Iv(lo, up)>>
RECURSIVE DevReparseFrom(_, _)
DevReparseFrom(A, i) == IF i > Len(A) THEN <<>> ELSE DevIv(A[i]) \o DevReparseFrom(A, i + 1)
DevReparse(A) == DevReparseFrom(A, 1)
JPrintPlain(A, origin, e) ==
  IF e.out # "ok" THEN {"C13:reparse-fails"}
  ELSE
    LET R == e.val
        P == Probes(Ends(A) \cup Ends(R))
        O == e.obs
    IN   Chk(\A v \in P : (RInB(R, v) <=> RInB(A, v)) /\ (RSat(R, v) <=> RSat(A, v)), "C13:denotation")
    \cup Chk(\A k \in Idx(O) : O[k].a = O[k].r, "C13:obs-satisfies")
    \cup Chk(origin = "parse" => e.eq, "C13:eq")
    \cup Chk(e.text2 = e.text, "C13:stable")
    \cup Chk(e.json = Quote(e.text), "C13:json-is-printed-string")
    \cup Chk(e.jok, "C13:json-back-fails")
    \cup Chk(e.jok => \A v \in Probes(Ends(A) \cup Ends(e.jval)) :
                          (RInB(e.jval, v) <=> RInB(A, v)) /\ (RSat(e.jval, v) <=> RSat(A, v)), "C13:json-denotation")
    \cup Chk((origin = "parse" /\ e.jok) => e.jeq, "C13:json-eq")
    \* through serde_json::Value, through a reader, from JSON text with an escape: the same range as from_str
    \cup Chk(e.jok => \A k \in Idx(e.jroutes) : e.jroutes[k].out = "ok" /\ e.jroutes[k].val = e.jval, "C13:json-other-routes")
JPrint(A, origin, e) ==
  \* the `*` shape (both sides unbounded) only comes from Range::any() and from operations on it, outside the
  \* quantifier of C13; a range that Range::parse returned is judged whatever its shape (`*` prints as `*`, which
  \* parses to `>=0.0.0`: were parse to return the `*` shape, the round trip would not compare equal)
  \* beyond the listed properties: the exact Display text (pinned by the crate's ~70 parse tests)
  Chk(e.text = PrintRange(A), "X:display-format") \cup
  IF HasAnyShape(A) /\ origin # "parse" THEN {}
  ELSE LET plain == JPrintPlain(A, origin, e) IN
       IF plain = {} THEN {}
       ELSE IF ~HasOver(A) THEN plain \cup (IF origin = "op" THEN {"C15:result-not-reusable"} ELSE {})
       ELSE LET d == DevReparse(A)
                explained == IF d = <<>> THEN e.out = "err"
                             ELSE e.out = "ok" /\ Len(e.val) = Len(d)
                                  /\ \A i \in Idx(d) : e.val[i] = d[i]
            IN IF explained THEN {"C13:reparse@BoundAboveMaxSafe"} ELSE plain

\* ------------------------------------------------------------------ C14
JMaxSat(A, e) ==
  LET L == e.list
      S == {k \in Idx(L) : e.sat[k]}
  IN   Chk(\A k \in Idx(L) : e.sat[k] = RSat(A, L[k]), "C14:obs-satisfies")
  \cup Chk((S = {}) <=> (e.max = 0), "C14:max-none-iff")
  \cup Chk((S = {}) <=> (e.min = 0), "C14:min-none-iff")
  \cup Chk(e.max # 0 => (e.max \in S /\ \A k \in S : VLe(L[k], L[e.max])), "C14:max")
  \cup Chk(e.min # 0 => (e.min \in S /\ \A k \in S : VLe(L[e.min], L[k])), "C14:min")

\* ------------------------------------------------------------------ C04
Sgn(c) == c \in {-1, 0, 1}
JVCmp(e) ==
  LET c == VCmp(e.a, e.b) IN
       Chk(e.cmp = c, "C04:cmp")
  \cup Chk(e.pcmp = c, "C04:partial-cmp")
  \cup Chk(e.rcmp = -c, "C04:antisymmetric")
  \cup Chk(e.eq = (c = 0) /\ e.ne = (c # 0), "C04:eq-iff-equal")
  \* the by-value max / min (provided methods of Ord that a type may override) answer one of the two, and the right one
  \cup Chk(/\ e.vmax \in {e.a, e.b} /\ e.vmaxr \in {e.a, e.b} /\ e.vmin \in {e.a, e.b} /\ e.vminr \in {e.a, e.b}
           /\ VCmp(e.vmax, IF c = 1 THEN e.a ELSE e.b) = 0 /\ VCmp(e.vmaxr, IF c = 1 THEN e.a ELSE e.b) = 0
           /\ VCmp(e.vmin, IF c = -1 THEN e.a ELSE e.b) = 0 /\ VCmp(e.vminr, IF c = -1 THEN e.a ELSE e.b) = 0, "C04:max-min-by-value")
  \cup Chk((c = 0) => e.hseq, "C04:hash-in-containers")
  \cup Chk(e.lt = (c = -1) /\ e.le = (c # 1) /\ e.gt = (c = 1) /\ e.ge = (c # -1), "C04:operators")
  \cup Chk(c = 0 => e.heq, "C04:hash")
  \cup Chk((e.maxa => c = 1) /\ (c = 1 => e.maxa) /\ (e.mina => c # 1) /\ (c # 1 => e.mina), "C04:max-min")
  \cup Chk(e.prea = IsPre(e.a), "X:is-prerelease")

IsSortedBy(s) == \A i \in 1..(Len(s) - 1) : VLe(s[i], s[i + 1])
\* same multiset, comparing all five fields
CountIn(s, x) == Cardinality({i \in Idx(s) : s[i] = x})
SameMultiset(s, t) == Len(s) = Len(t) /\ \A i \in Idx(s) : CountIn(s, s[i]) = CountIn(t, s[i])
JVSort(e) ==
  LET L == e.list IN
       Chk(IsSortedBy(e.sorted) /\ SameMultiset(L, e.sorted), "C04:sort")
  \cup Chk(IsSortedBy(e.usorted) /\ SameMultiset(L, e.usorted), "C04:sort-unstable")
  \cup Chk((L = <<>>) = (e.max = <<>>) /\ (L = <<>>) = (e.min = <<>>), "C04:max-min-none")
  \cup Chk(e.max # <<>> => ((\E i \in Idx(L) : L[i] = e.max[1]) /\ \A i \in Idx(L) : VLe(L[i], e.max[1])), "C04:max")
  \cup Chk(e.min # <<>> => ((\E i \in Idx(L) : L[i] = e.min[1]) /\ \A i \in Idx(L) : VLe(e.min[1], L[i])), "C04:min")

\* ------------------------------------------------------------------ C12 (versions built from canonical identifiers)
JVBuilt(e) ==
  \* a built version whose printed form exceeds MAX_LENGTH is not a parseable version: no round-trip obligation
  IF Len(PrintVersion(e.val)) > MAX_LENGTH THEN Chk(e.print = PrintVersion(e.val), "C12:print")
  ELSE
       Chk(e.print = PrintVersion(e.val), "C12:print")
  \cup Chk(e.re.out = "ok" /\ e.re.val = e.val, "C12:reparse-equal-five-fields")
  \cup Chk(e.print2 = e.print, "C12:fixed-point")
  \cup Chk(e.json = <<34>> \o e.print \o <<34>>, "C12:json-is-printed-string")
  \cup Chk(e.jback.out = "ok" /\ e.jback.val = e.val, "C12:json-roundtrip")
  \cup Chk(\A k \in Idx(e.jroutes) : e.jroutes[k].out = "ok" /\ e.jroutes[k].val = e.val, "C12:json-roundtrip-other-routes")

\* ------------------------------------------------------------------ C16
JVDiff(e) ==
       Chk(e.res = Diff(e.a, e.b), "C16:value")
  \cup Chk(e.res = e.rev, "C16:symmetric")
  \cup Chk((e.res = "none") <=> VEq(e.a, e.b), "C16:none-iff-equal")
  \cup Chk(e.self = "none", "C16:self")

\* ------------------------------------------------------------------ C18
JVTuple(e) ==
  LET want == IF Len(e.vals) = 3 THEN FromTuple3(e.vals[1], e.vals[2], e.vals[3])
              ELSE FromTuple4(e.vals[1], e.vals[2], e.vals[3], e.vals[4])
  IN   Chk(e.val = want, "C18:fields")
  \cup Chk(e.print = PrintVersion(want) /\ e.print = e.dotted, "C18:prints-as-dotted")
  \cup Chk(e.parsed.out = "ok" /\ e.parsed.val = want /\ e.eq, "C18:equals-parse")

\* ------------------------------------------------------------------ C06
\* a call that panicked also failed to deliver what its own property promises
PanicTag(call) ==
  CASE call = "intersect"      -> {"C07:panicked"}
    [] call = "difference"     -> {"C08:panicked"}
    [] call = "allows_any"     -> {"C09:panicked"}
    [] call = "allows_all"     -> {"C10:panicked"}
    [] call = "min_version"    -> {"C11:panicked"}
    [] call = "max_satisfying" -> {"C14:panicked"}
    [] call = "diff"           -> {"C16:panicked"}
    [] call = "from_tuple"     -> {"C18:panicked"}
    [] call \in {"cmp", "sort"} -> {"C04:panicked"}
    [] call \in {"to_string", "reprint"} -> {"C13:panicked"}
    [] call = "location" -> {"C17:panicked"}
    [] call = "version_roundtrip" -> {"C12:panicked"}
    [] OTHER -> {}

\* time: within budget (50 ms + 20 us per byte - about 100 times the measured cost), and roughly linear:
\* r times the input (r >= 4) may take at most 4r times as long plus 20 ms
JTiming(e) ==
       Chk(\A i \in Idx(e.n) : e.us[i] <= 50000 + 20 * e.n[i], "C06:time-budget")
  \cup Chk(\A i \in Idx(e.n) : \A j \in Idx(e.n) :
             (e.n[j] >= 4 * e.n[i]) => e.us[j] <= 4 * (e.n[j] \div e.n[i]) * e.us[i] + 20000, "C06:superlinear")
JSoup(e) == Chk(e.us <= 2000000 + 2000 * e.len, "C06:time-budget")
\* every operation between a range with tens of thousands of alternatives and a small one returned (a panic is its own
\* event, an abort or a hang ends the trace) within 100 ms + 50 us per alternative
JDeep(e) == Chk(\A i \in Idx(e.ops) : e.ops[i].us <= 100000 + 50 * e.alts, "C06:time-budget-set-operations")

\* ------------------------------------------------------------------ register file
RegStep(rr, e) ==
  CASE e.ev = "reset"  -> InitRegs
    [] e.ev = "rload"  -> [rr EXCEPT ![e.dst] = IF e.ok THEN e.val ELSE Nil]
    [] e.ev = "rany"   -> [rr EXCEPT ![e.dst] = e.val]
    [] e.ev = "rparse" -> [rr EXCEPT ![e.dst] = IF e.out = "ok" THEN e.val ELSE Nil]
    [] e.ev \in {"isect", "diff"} -> [rr EXCEPT ![e.dst] = IF e.some THEN e.val ELSE Nil]
    [] e.ev = "print"  -> [rr EXCEPT ![e.dst] = IF e.out = "ok" THEN e.val ELSE Nil]
    [] e.ev = "copy"   -> [rr EXCEPT ![e.dst] = rr[e.a]]      \* client-side: X minus None is X
    [] e.ev = "setnil" -> [rr EXCEPT ![e.dst] = Nil]           \* client-side: anything with None is None
    [] OTHER -> rr
StepOrg(org, e) ==
  CASE e.ev = "reset"  -> InitOrg
    [] e.ev = "rload"  -> [org EXCEPT ![e.dst] = "hook"]
    [] e.ev = "rany"   -> [org EXCEPT ![e.dst] = "any"]
    [] e.ev = "rparse" -> [org EXCEPT ![e.dst] = "parse"]
    [] e.ev \in {"isect", "diff"} -> [org EXCEPT ![e.dst] = "op"]
    [] e.ev = "print"  -> [org EXCEPT ![e.dst] = "parse"]
    [] e.ev = "copy"   -> [org EXCEPT ![e.dst] = org[e.a]]
    [] e.ev = "setnil" -> [org EXCEPT ![e.dst] = "none"]
    [] OTHER -> org

Judge(rr, org, e) ==
  CASE e.ev = "reset"  -> {}
    [] e.ev \in {"skip", "copy", "setnil"} -> {}
    [] e.ev = "panic"  -> {"C06:panic"} \cup PanicTag(e.call)
    \* the hook builds intervals through the crate's own constructor, which may normalise them: the register holds
    \* what was built (val); it must mean what was asked for (want), else the operand is not the intended one
    [] e.ev = "rload"  -> Chk(~e.ok \/ e.val = e.want \/
                               \A v \in Probes(Ends(e.val) \cup Ends(e.want)) :
                                   (RInB(e.val, v) <=> RInB(e.want, v)) /\ (RSat(e.val, v) <=> RSat(e.want, v)),
                               "SKIP:hook-constructor-changed-meaning")
                          \cup Chk(e.ok \/ ~ValidRange(e.want), "SKIP:hook-rejected-valid-interval")
    [] e.ev = "rany"   -> Chk(e.val = <<AnyIv>>, "X:any")
    [] e.ev = "isect"  -> JIsect(rr[e.a], rr[e.b], e)
    [] e.ev = "diff"   -> JDiff(rr[e.a], rr[e.b], e)
    [] e.ev = "any"    -> JAny(rr[e.a], rr[e.b], e)
    [] e.ev = "all"    -> JAll(rr[e.a], rr[e.b], e)
    [] e.ev = "minv"   -> JMinv(rr[e.a], e)
    [] e.ev = "sat"    -> JSat(rr[e.a], e)
    [] e.ev = "print"  -> JPrint(rr[e.a], org[e.a], e)
    [] e.ev = "maxsat" -> JMaxSat(rr[e.a], e)
    [] e.ev = "rparse" -> JRParseFull(e)
    [] e.ev = "concat" -> JConcat(e)
    [] e.ev = "soup"   -> JSoup(e)
    [] e.ev = "timing" -> JTiming(e)
    [] e.ev = "deepops" -> JDeep(e)
    [] e.ev = "ident"  -> JIdent(rr[e.l], rr[e.r], e)
    [] e.ev = "vparse" -> JVParse(e)
    [] e.ev = "vbuilt" -> JVBuilt(e)
    [] e.ev = "vcmp"   -> JVCmp(e)
    [] e.ev = "vsort"  -> JVSort(e)
    [] e.ev = "vdiff"  -> JVDiff(e)
    [] e.ev = "vtuple" -> JVTuple(e)
    [] OTHER -> {"TOOL:unknown-event"}
=============================================================================
