---------------------------- MODULE IntervalInt ----------------------------
(***************************************************************************)
(* Unbounded lemma for the cut algebra of Interval.tla, for Apalache.      *)
(* Endpoints and the probe are arbitrary integers; the formulas use only   *)
(* the order, so what holds here holds for every total order, in           *)
(* particular for SemVer precedence.  Checked as a state invariant of a    *)
(* one-state system whose constants are unconstrained (ConstInit):         *)
(*   apalache-mc check --cinit=ConstInit --inv=Lemmas --length=0           *)
(***************************************************************************)
EXTENDS Integers

CONSTANTS
  \* @type: { k: Str, v: Int };
  aLo,
  \* @type: { k: Str, v: Int };
  aUp,
  \* @type: { k: Str, v: Int };
  bLo,
  \* @type: { k: Str, v: Int };
  bUp,
  \* @type: Int;
  p

Kinds == {"unb", "inc", "exc"}
ConstInit ==
  /\ aLo \in [k : Kinds, v : Int] /\ aUp \in [k : Kinds, v : Int]
  /\ bLo \in [k : Kinds, v : Int] /\ bUp \in [k : Kinds, v : Int]
  /\ p \in Int

VARIABLE
  \* @type: Bool;
  dummy
Init == dummy = TRUE
Next == UNCHANGED dummy

\* ---- the definitions of Interval.tla, over integers
\* @type: ({ k: Str, v: Int }, Int) => Bool;
InLo(lo, v) == lo.k = "unb" \/ (lo.k = "inc" /\ lo.v <= v) \/ (lo.k = "exc" /\ lo.v < v)
\* @type: ({ k: Str, v: Int }, Int) => Bool;
InUp(up, v) == up.k = "unb" \/ (up.k = "inc" /\ v <= up.v) \/ (up.k = "exc" /\ v < up.v)
\* @type: ({ k: Str, v: Int }) => Int;
LSide(b) == IF b.k = "inc" THEN 0 ELSE 1
\* @type: ({ k: Str, v: Int }) => Int;
USide(b) == IF b.k = "inc" THEN 1 ELSE 0
\* @type: (Int, Int, Int, Int) => Bool;
CutLt(v1, s1, v2, s2) == v1 < v2 \/ (v1 = v2 /\ s1 < s2)
\* @type: (Int, Int, Int, Int) => Bool;
CutLe(v1, s1, v2, s2) == v1 < v2 \/ (v1 = v2 /\ s1 <= s2)
\* @type: ({ k: Str, v: Int }, { k: Str, v: Int }) => Bool;
LowBelowUp(lo, up) == lo.k = "unb" \/ up.k = "unb" \/ CutLt(lo.v, LSide(lo), up.v, USide(up))
\* a <= b as lower bounds / as upper bounds
\* @type: ({ k: Str, v: Int }, { k: Str, v: Int }) => Bool;
LowLe(a, b) == a.k = "unb" \/ (b.k # "unb" /\ CutLe(a.v, LSide(a), b.v, LSide(b)))
\* @type: ({ k: Str, v: Int }, { k: Str, v: Int }) => Bool;
UpLe(a, b) == b.k = "unb" \/ (a.k # "unb" /\ CutLe(a.v, USide(a), b.v, USide(b)))
\* @type: ({ k: Str, v: Int }, { k: Str, v: Int }) => { k: Str, v: Int };
MaxLo(a, b) == IF LowLe(a, b) /\ ~LowLe(b, a) THEN b ELSE a
\* @type: ({ k: Str, v: Int }, { k: Str, v: Int }) => { k: Str, v: Int };
MinUp(a, b) == IF UpLe(b, a) /\ ~UpLe(a, b) THEN b ELSE a
\* @type: ({ k: Str, v: Int }) => { k: Str, v: Int };
FlipToUp(lo) == [k |-> IF lo.k = "inc" THEN "exc" ELSE "inc", v |-> lo.v]
\* @type: ({ k: Str, v: Int }) => { k: Str, v: Int };
FlipToLo(up) == [k |-> IF up.k = "inc" THEN "exc" ELSE "inc", v |-> up.v]

ValidA == LowBelowUp(aLo, aUp)
ValidB == LowBelowUp(bLo, bUp)
InA == InLo(aLo, p) /\ InUp(aUp, p)
InBb == InLo(bLo, p) /\ InUp(bUp, p)

\* C07: max lower cut / min upper cut is exactly the intersection; empty as a cut interval => nothing in both
ILo == MaxLo(aLo, bLo)
IUp == MinUp(aUp, bUp)
LemmaIntersect ==
  (ValidA /\ ValidB) =>
     /\ ((InLo(ILo, p) /\ InUp(IUp, p)) <=> (InA /\ InBb))
     /\ (~LowBelowUp(ILo, IUp) => ~(InA /\ InBb))
\* C09: the two disjointness tests decide exactly whether the intersection is a valid interval
LemmaOverlap ==
  (ValidA /\ ValidB) => ((LowBelowUp(aLo, bUp) /\ LowBelowUp(bLo, aUp)) <=> LowBelowUp(ILo, IUp))
\* C08: what of a lies below b, plus what of a lies above b, is exactly a minus b; invalid pieces are empty
P1Up == MinUp(aUp, FlipToUp(bLo))
P2Lo == MaxLo(aLo, FlipToLo(bUp))
InP1 == bLo.k # "unb" /\ LowBelowUp(aLo, P1Up) /\ InLo(aLo, p) /\ InUp(P1Up, p)
InP2 == bUp.k # "unb" /\ LowBelowUp(P2Lo, aUp) /\ InLo(P2Lo, p) /\ InUp(aUp, p)
LemmaDifference ==
  (ValidA /\ ValidB) => ((InP1 \/ InP2) <=> (InA /\ ~InBb))
\* C10: containment of cut intervals is sound
LemmaAllowsAll ==
  (ValidA /\ ValidB /\ LowLe(aLo, bLo) /\ UpLe(bUp, aUp)) => (InBb => InA)

Lemmas == LemmaIntersect /\ LemmaOverlap /\ LemmaDifference /\ LemmaAllowsAll
=============================================================================
