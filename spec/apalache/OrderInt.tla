------------------------------ MODULE OrderInt ------------------------------
(***************************************************************************)
(* Unbounded lemma for SemVer precedence (C04), for Apalache.              *)
(* A version is three integers and up to three prerelease identifiers; an  *)
(* identifier is numeric (its value) or textual (abstracted to an integer  *)
(* rank: ASCII order is some total order, which is all precedence uses).   *)
(* All values are arbitrary integers, so what holds here holds for every   *)
(* component and identifier value, not just the small ones TLC enumerates  *)
(* (MC_Version covers longer lists by induction on the same comparison).   *)
(*   apalache-mc check --cinit=ConstInit --inv=OrderLaws --length=0        *)
(***************************************************************************)
EXTENDS Integers

\* @typeAlias: id = { num: Bool, v: Int };
\* @typeAlias: ver = { M: Int, m: Int, p: Int, len: Int, i1: $id, i2: $id, i3: $id };
OrderInt_aliases == TRUE

CONSTANTS
  \* @type: $ver;
  a,
  \* @type: $ver;
  b,
  \* @type: $ver;
  c

Ids == [num : BOOLEAN, v : Int]
Vers == [M : Int, m : Int, p : Int, len : 0..3, i1 : Ids, i2 : Ids, i3 : Ids]
ConstInit == a \in Vers /\ b \in Vers /\ c \in Vers

VARIABLE
  \* @type: Bool;
  dummy
Init == dummy = TRUE
Next == UNCHANGED dummy

\* @type: (Int, Int) => Int;
IntCmp(x, y) == IF x < y THEN -1 ELSE IF x > y THEN 1 ELSE 0
\* numeric < textual; numerics by value; texts by rank
\* @type: ($id, $id) => Int;
IdCmp(x, y) == IF x.num /\ y.num THEN IntCmp(x.v, y.v)
               ELSE IF x.num THEN -1 ELSE IF y.num THEN 1 ELSE IntCmp(x.v, y.v)
\* identifier lists left to right, a strict prefix is lower (lists of length <= 3, unrolled)
\* @type: ($ver, $ver) => Int;
PreCmp(x, y) ==
  IF x.len = 0 \/ y.len = 0 THEN IntCmp(x.len, y.len)
  ELSE LET c1 == IdCmp(x.i1, y.i1) IN IF c1 # 0 THEN c1
  ELSE IF x.len = 1 \/ y.len = 1 THEN IntCmp(x.len, y.len)
  ELSE LET c2 == IdCmp(x.i2, y.i2) IN IF c2 # 0 THEN c2
  ELSE IF x.len = 2 \/ y.len = 2 THEN IntCmp(x.len, y.len)
  ELSE IdCmp(x.i3, y.i3)
\* @type: ($ver, $ver) => Int;
VCmp(x, y) ==
  LET c1 == IntCmp(x.M, y.M) IN IF c1 # 0 THEN c1 ELSE
  LET c2 == IntCmp(x.m, y.m) IN IF c2 # 0 THEN c2 ELSE
  LET c3 == IntCmp(x.p, y.p) IN IF c3 # 0 THEN c3 ELSE
  IF x.len = 0 /\ y.len = 0 THEN 0
  ELSE IF x.len = 0 THEN 1          \* a release is above its prereleases
  ELSE IF y.len = 0 THEN -1
  ELSE PreCmp(x, y)

\* equality of the parts precedence looks at (slots beyond len are irrelevant)
\* @type: ($id, $id) => Bool;
IdEq(x, y) == x.num = y.num /\ x.v = y.v
\* @type: ($ver, $ver) => Bool;
KeyEq(x, y) == /\ x.M = y.M /\ x.m = y.m /\ x.p = y.p /\ x.len = y.len
               /\ (x.len >= 1 => IdEq(x.i1, y.i1)) /\ (x.len >= 2 => IdEq(x.i2, y.i2)) /\ (x.len >= 3 => IdEq(x.i3, y.i3))

Reflexive == VCmp(a, a) = 0
Antisymmetric == VCmp(a, b) = -VCmp(b, a)
Transitive == (VCmp(a, b) <= 0 /\ VCmp(b, c) <= 0) => VCmp(a, c) <= 0
EqualIffKey == (VCmp(a, b) = 0) <=> KeyEq(a, b)
OrderLaws == Reflexive /\ Antisymmetric /\ Transitive /\ EqualIffKey

\* ---- C16: Version.tla's Diff over arbitrary integers: symmetric, "none" exactly on precedence-equal versions,
\*      and the documented shape of the answer
\* @type: ($ver, $ver) => Str;
Diff(x, y) ==
  LET cc == VCmp(x, y) IN
  IF cc = 0 THEN "none" ELSE
  LET hi == IF cc = 1 THEN x ELSE y
      lo == IF cc = 1 THEN y ELSE x
      hiPre == hi.len > 0
      loPre == lo.len > 0
  IN IF loPre /\ ~hiPre THEN
          (IF lo.p = 0 /\ lo.m = 0 THEN "major"
           ELSE IF hi.p # 0 THEN "patch"
           ELSE IF hi.m # 0 THEN "minor"
           ELSE "major")
     ELSE IF x.M # y.M THEN (IF hiPre THEN "premajor" ELSE "major")
          ELSE IF x.m # y.m THEN (IF hiPre THEN "preminor" ELSE "minor")
          ELSE IF x.p # y.p THEN (IF hiPre THEN "prepatch" ELSE "patch")
          ELSE "prerelease"
\* @type: ($ver) => Bool;
NonNeg(x) == x.M >= 0 /\ x.m >= 0 /\ x.p >= 0
DiffSymmetric == Diff(a, b) = Diff(b, a)
DiffNoneIffEqual == (Diff(a, b) = "none") <=> (VCmp(a, b) = 0)
\* "prerelease" is answered only when the three numbers agree, and then both sides carry a tag or the lower does
DiffPrereleaseOnlyTags ==
  (Diff(a, b) = "prerelease") => (a.M = b.M /\ a.m = b.m /\ a.p = b.p /\ a.len > 0 /\ b.len > 0)
\* without tags on either side the answer is the most significant differing field
DiffPlainReleases ==
  (NonNeg(a) /\ NonNeg(b) /\ a.len = 0 /\ b.len = 0 /\ VCmp(a, b) # 0) =>
     Diff(a, b) = (IF a.M # b.M THEN "major" ELSE IF a.m # b.m THEN "minor" ELSE "patch")
\* a `pre` prefix is answered exactly when the higher version is a prerelease and a number differs
DiffPrefix ==
  (Diff(a, b) \in {"premajor", "preminor", "prepatch"}) =>
     LET hi == IF VCmp(a, b) = 1 THEN a ELSE b IN hi.len > 0
DiffLaws == DiffSymmetric /\ DiffNoneIffEqual /\ DiffPrereleaseOnlyTags /\ DiffPlainReleases /\ DiffPrefix
=============================================================================
