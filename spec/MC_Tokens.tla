------------------------------ MODULE MC_Tokens ------------------------------
(***************************************************************************)
(* Bounded instance for C06: every string of up to MaxLen tokens over an   *)
(* alphabet covering every token class of both parsers (digits, numbers at *)
(* and above MAX_SAFE_INTEGER and 2^64, dots, hyphens, plus, wildcards,    *)
(* operators, `|`, `||`, blanks, letters, a multi-byte character, ` - `).  *)
(* Each string is given to Version::parse and Range::parse, and every      *)
(* public operation is applied to whatever they return (harness `soup`).   *)
(* The Api machine has no transition for "panicked" or "did not return".   *)
(***************************************************************************)
EXTENDS RangeText, TLC, Json

CONSTANTS MaxLen, Emit, Slice, Of

B(s) == s
TokList == << <<48>>, <<49>>, <<57,48,48,55,49,57,57,50,53,52,55,52,48,57,57>>, <<57,48,48,55,49,57,57,50,53,52,55,52,49,48,48>>,
             <<49,56,52,52,54,55,52,52,48,55,51,55,48,57,53,53,49,54,49,53>>, <<49,56,52,52,54,55,52,52,48,55,51,55,48,57,53,53,49,54,49,54>>,
             <<46>>, <<45>>, <<43>>, <<42>>, <<120>>, <<118>>, <<94>>, <<126>>, <<62>>, <<60>>, <<61>>, <<124>>, <<124,124>>,
             <<32>>, <<9>>, <<97>>, <<195,169>>, <<32,45,32>>, <<49,46,50,46,51>>, <<10>> >>
NT == Len(TokList)

VARIABLES str, n, first
vars == <<str, n, first>>
Init == str = <<>> /\ n = 0 /\ first = 0
Next == /\ n < MaxLen
        /\ \E k \in 1..NT :
             /\ (n = 0 => k % Of = Slice % Of)     \* quick tier: only a seeded slice of first tokens
             /\ str' = str \o TokList[k]
             /\ first' = IF n = 0 THEN k ELSE first
        /\ n' = n + 1
        /\ (Emit => PrintT(<<"CASE", ToJson([op |-> "soup", text |-> str'])>>))
Spec == Init /\ [][Next]_vars

\* the specification's own parser machine is total on every such string
InvSpecTotal == VClassify(str).class \in {"must", "may", "reject"}
\* ... and so is the byte-level range parser, and the meaning of whatever tree it determines
InvRangeTextTotal ==
  LET pr == ParseRangeText(str) IN
  /\ pr.det \in BOOLEAN
  /\ pr.det => /\ WfRange(pr.ast) \in BOOLEAN /\ NoValid(pr.ast) \in BOOLEAN /\ MayFail(pr.ast) \in BOOLEAN
                /\ Means(pr.ast, MinV) \in BOOLEAN /\ Means(pr.ast, V3(One, <<2>>, <<3>>)) \in BOOLEAN
                /\ RenderRange(pr.ast) \in Seq(0..255)
=============================================================================
