----------------------------- MODULE MC_Interval -----------------------------
(***************************************************************************)
(* Bounded instance for the interval algebra (C07-C11, C13 shapes).        *)
(* Enumerates every ordered pair of ranges built from every valid interval *)
(* over a small endpoint set that contains a same-tuple prerelease pair,   *)
(* an immediate-successor pair, a `-0` bound and a release; checks the     *)
(* design (Interval.tla) against the declarative statements pointwise on   *)
(* the complete probe set; prints each pair as a CASE line that the        *)
(* harness executes against the real crate.                                *)
(***************************************************************************)
EXTENDS Interval, TLC, Json

CONSTANTS Universe,   \* "small" | "large"
          Alts,       \* maximal number of alternatives per operand (1 or 2)
          UseImpl,    \* TRUE: check the transcription of the pinned code instead of the design
          Emit        \* print CASE lines

D(n) == FromNat(n)
a_ == TxtId(<<97>>)
EndpointsSmall ==
  { V4(D(1), D(0), D(0), <<a_>>),         \* 1.0.0-a
    V4(D(1), D(0), D(0), <<a_, N0>>),     \* 1.0.0-a.0   immediate successor of the former
    V3(D(1), D(0), D(0)),                 \* 1.0.0
    V4(D(1), D(0), D(1), <<N0>>),         \* 1.0.1-0     immediate successor of 1.0.0
    V3(D(2), D(0), D(0)) }
EndpointsLarge ==
  EndpointsSmall \cup { V4(D(0), D(0), D(0), <<N0>>),   \* least version of all
                        V3(D(0), D(0), D(0)),
                        V4(D(2), D(0), D(0), <<N0>>) }
EndpointsTiny == { V4(D(1), D(0), D(0), <<a_>>), V3(D(1), D(0), D(0)), V4(D(1), D(0), D(1), <<N0>>) }
Endpoints == IF Universe = "small" THEN EndpointsSmall ELSE IF Universe = "tiny" THEN EndpointsTiny ELSE EndpointsLarge

Bounds == {Unb} \cup {Inc(v) : v \in Endpoints} \cup {Exc(v) : v \in Endpoints}
Ivs == {iv \in {Iv(lo, up) : lo \in Bounds, up \in Bounds} : ValidIv(iv)}
Ranges == {<<iv>> : iv \in Ivs} \cup
          (IF Alts >= 2 THEN {<<x, y>> : x \in Ivs, y \in Ivs} ELSE {})

P == Probes(Endpoints)

\* operations under check: the design, or (negative control) the pinned transcription
XIntersect(A, B)  == IF UseImpl THEN Impl_Intersect(A, B) ELSE Intersect(A, B)
XDifference(A, B) == IF UseImpl THEN Impl_Difference(A, B) ELSE Difference(A, B)
XAllowsAny(A, B)  == IF UseImpl THEN Impl_AllowsAny(A, B) ELSE AllowsAny(A, B)
XAllowsAll(A, B)  == IF UseImpl THEN Impl_AllowsAll(A, B) ELSE AllowsAll(A, B)
XMinVersion(A)    == IF UseImpl THEN Impl_MinVersion(A) ELSE MinVersion(A)

VARIABLES A, B
vars == <<A, B>>
Init == A = <<>> /\ B = <<>>
\* two steps, so that the second (where all the work is) is spread over TLC's workers
Next == \/ /\ A = <<>>
           /\ A' \in Ranges
           /\ B' = <<>>
        \/ /\ A # <<>> /\ B = <<>>
           /\ B' \in Ranges
           /\ A' = A
           \* every pair is checked at design level; pairs of two multi-alternative operands are not executed against
           \* the crate from here (176 400 of them for Alts = 2) - the seeded generators cover multi x multi
           /\ ((Emit /\ (Len(A) = 1 \/ Len(B') = 1)) => PrintT(<<"CASE", ToJson([op |-> "pair", A |-> A, B |-> B'])>>))
Spec == Init /\ [][Next]_vars

Ready == B # <<>>

\* ---- C07 ----
InvIntersect ==
  Ready =>
    LET R == XIntersect(A, B) IN
    /\ \A i \in 1..Len(R) : ValidIv(R[i])
    /\ \A v \in P : RInB(R, v) <=> (RInB(A, v) /\ RInB(B, v))
    /\ \A v \in P : (IsPre(v) /\ RSat(A, v) /\ RSat(B, v)) => RSat(R, v)
    /\ \A v \in P : (IsPre(v) /\ RSat(R, v)) => (RInB(A, v) /\ RInB(B, v) /\ (RSat(A, v) \/ RSat(B, v)))
    /\ \A v \in P : ~IsPre(v) => (RSat(R, v) <=> (RSat(A, v) /\ RSat(B, v)))
    /\ (R = <<>> => \A v \in P : ~(RInB(A, v) /\ RInB(B, v)))
InvIntersectCommutes ==
  Ready => \A v \in P : /\ RInB(XIntersect(A, B), v) <=> RInB(XIntersect(B, A), v)
                        /\ RSat(XIntersect(A, B), v) <=> RSat(XIntersect(B, A), v)
InvIntersectIdempotent ==
  Ready => \A v \in P : /\ RInB(XIntersect(A, A), v) <=> RInB(A, v)
                        /\ RSat(XIntersect(A, A), v) <=> RSat(A, v)
\* ---- C08 ----
InvDifference ==
  Ready =>
    LET R == XDifference(A, B)
        I == XIntersect(A, B) IN
    /\ \A i \in 1..Len(R) : ValidIv(R[i])
    /\ \A v \in P : RInB(R, v) <=> (RInB(A, v) /\ ~RInB(B, v))
    /\ \A v \in P : ~IsPre(v) => (RSat(R, v) <=> (RSat(A, v) /\ ~RSat(B, v)))
    /\ (R = <<>> => \A v \in P : RInB(A, v) => RInB(B, v))
    /\ \A v \in P : ~(RInB(R, v) /\ RInB(I, v))
    /\ \A v \in P : RInB(A, v) <=> (RInB(R, v) \/ RInB(I, v))
\* ---- C09 ----
InvAllowsAny ==
  Ready =>
    LET r == XAllowsAny(A, B) IN
    /\ r = (XIntersect(A, B) # <<>>)
    /\ r = XAllowsAny(B, A)
    /\ (~r => \A v \in P : ~(RInB(A, v) /\ RInB(B, v)))
    /\ ((\E v \in P : RInB(A, v) /\ RInB(B, v)) => r)
    /\ (AllowsAnyVersion(A, B) <=> \E v \in P : RInB(A, v) /\ RInB(B, v))
\* ---- C10 ----
InvAllowsAll ==
  Ready =>
    LET r == XAllowsAll(A, B) IN
    /\ (Len(B) = 1 /\ r) => ((\A v \in P : RInB(B, v) => RInB(A, v)) /\ XAllowsAny(A, B))
    /\ XAllowsAll(A, A)
    /\ (Len(A) = 1 /\ Len(B) = 1) => (r <=> (XDifference(B, A) = <<>>))
\* ---- C11 ----
InvMinVersion ==
  Ready =>
    LET m == XMinVersion(A) IN
    IF m = <<>> THEN \A v \in P : ~RSat(A, v)
    ELSE /\ RSat(A, m[1])
         /\ \A v \in P : VLt(v, m[1]) => ~RSat(A, v)
\* ---- C13 (shape level): printing never needs the unreachable "*" shape to be re-read wrongly ----
InvProbesComplete ==
  \* the probe set is closed enough: the least element of every non-empty gap is a probe
  Ready => \A i \in 1..Len(A) : LET w == LeastInB(A[i]) IN w = <<>> \/ w[1] \in P
=============================================================================
