------------------------------ MODULE MC_Syntax ------------------------------
(***************************************************************************)
(* Bounded instance for range texts (C01, C02, C03, C13).                  *)
(*   Mode = "single"  every single comparator over numbers {0,1,2}, x, X,  *)
(*                    *, absent components, tags {none, -0, -a}, 9         *)
(*                    operators, times every spelling knob                 *)
(*   Mode = "hyphen"  every hyphen range over the same partials            *)
(*   Mode = "pairs"   every space-joined pair of comparators over numbers  *)
(*                    {0,1} (first from the full set, second from PairB)   *)
(*   Mode = "alts"    a || b and garbage tokens in every position          *)
(* Design-level invariants: folding a comparator list into one interval    *)
(* with the interval prerelease gate means exactly what node's comparator- *)
(* list rule means; unsatisfiable texts are recognised; every interval a   *)
(* text folds to prints to a text that means the same (C13).               *)
(* Each text is printed as a CASE line and parsed by the real crate.       *)
(***************************************************************************)
EXTENDS RangeText, TLC, Json, SequencesExt

CONSTANTS Mode, Size, Emit,
          CaseOp,       \* "rparse": one text per tree; "concat": the two halves of a pair separately (C02)
          Slice, Of     \* only every Of-th first element, starting at Slice (quick tier: a seeded slice; thorough: Of = 1)

D(n) == FromNat(n)
tagA == <<97>>
tag0 == <<48>>
NumsS == IF Mode = "single" \/ Mode = "hyphen" THEN {0, 1, 2} ELSE {0, 1}
XSpell == IF Mode = "single" THEN {120, 88, 42} ELSE {120}
CompsM == {CNum(D(n)) : n \in NumsS} \cup {CX(c) : c \in XSpell}
CompsR == {CAbs} \cup {CNum(D(n)) : n \in NumsS} \cup {CX(120)}
PreChoices == {<<>>, <<tag0>>, <<tagA>>}
\* well-formed partials: nothing follows an absent component; a tag needs all three components
PartialsPlain ==
  { pa \in { PartialOf(M, m, p, pre, <<>>) : M \in CompsM, m \in CompsR, p \in CompsR, pre \in PreChoices } :
      /\ (pa.m.t = "abs" => pa.p.t = "abs")
      /\ (pa.pre # <<>> => pa.p.t = "n" /\ pa.m.t = "n" /\ pa.M.t = "n") }
\* a tag after a partial with a wildcard (`1.x.2-a`, `1.2.x-a`, `1.x.x-0`): grammatical - the qualifier follows the
\* third component whatever it is - and irrelevant; single comparators only, to keep the pair models small
PartialsWildTag ==
  { pa \in { PartialOf(CNum(D(n)), m, p, pre, <<>>) : n \in NumsS, m \in CompsR, p \in CompsR, pre \in PreChoices \ {<<>>} } :
      /\ pa.m.t # "abs" /\ pa.p.t # "abs"
      /\ (pa.m.t = "x" \/ pa.p.t = "x") }
Partials == IF Mode = "single" THEN PartialsPlain \cup PartialsWildTag ELSE PartialsPlain
Ops == {"", "=", "<", "<=", ">", ">=", "~", "~>", "^"}
OpsPairs == {"", "<", "<=", ">", ">=", "~", "^"}
Comparators(ops) == { CmpOf(op, pa) : op \in ops, pa \in Partials }

\* spelling knobs applied to one comparator
Knobs == {"plain", "v", "sp", "sp2", "tab", "zeros", "nohy", "bld"}
LeadZero(c) == IF c.t = "n" THEN CNum(<<0>> \o c.d) ELSE c
ApplyKnob(c, k) ==
  CASE k = "plain" -> c
    [] k = "v"     -> [c EXCEPT !.pa.v = TRUE]
    [] k = "sp"    -> IF c.op = "" THEN c ELSE [c EXCEPT !.sp = <<32>>]
    [] k = "sp2"   -> IF c.op = "" THEN c ELSE [c EXCEPT !.sp = <<32, 32>>, !.pa.v = TRUE]
    [] k = "tab"   -> IF c.op = "" THEN c ELSE [c EXCEPT !.sp = <<9>>]
    [] k = "zeros" -> [c EXCEPT !.pa.M = LeadZero(@), !.pa.m = LeadZero(@), !.pa.p = LeadZero(@)]
    [] k = "nohy"  -> IF c.pa.pre = <<tagA>> THEN [c EXCEPT !.pa.nohy = TRUE] ELSE c
    [] k = "bld"   -> IF c.pa.p.t = "n" THEN [c EXCEPT !.pa.bld = << <<98>>, <<48, 49>> >>] ELSE c

\* the second comparator of a pair: one of each operator, tagged and untagged, around tuple 1.0.0 / 0.1.0
PairB ==
  IF Size = "large" THEN Comparators(OpsPairs)
  ELSE { CmpOf(op, pa) : op \in OpsPairs,
         pa \in { PartialOf(CNum(D(1)), CNum(D(0)), CNum(D(0)), <<>>, <<>>),
                  PartialOf(CNum(D(1)), CNum(D(0)), CNum(D(0)), <<tagA>>, <<>>),
                  PartialOf(CNum(D(1)), CNum(D(0)), CNum(D(0)), <<tag0>>, <<>>),
                  PartialOf(CNum(D(0)), CNum(D(1)), CAbs, <<>>, <<>>),
                  PartialOf(CNum(D(1)), CAbs, CAbs, <<>>, <<>>),
                  PartialOf(CNum(D(0)), CNum(D(0)), CNum(D(1)), <<tag0>>, <<>>),
                  PartialOf(CNum(D(0)), CNum(D(0)), CNum(D(0)), <<tagA>>, <<>>) } }
Garbage == { GarbageOf(<<102, 111, 111>>), GarbageOf(<<49, 46, 121>>), GarbageOf(<<62, 61, 97>>), GarbageOf(<<126, 49, 46, 121>>) }

Nil == <<>>
VARIABLES first, r
vars == <<first, r>>
Init == first = Nil /\ r = Nil

OneCmp(c) == RangeOf(<< AltOf(<<c>>) >>)
FirstSet == CASE Mode = "single" -> Comparators(Ops)
              [] Mode = "hyphen" -> Partials
              [] Mode = "pairs"  -> Comparators(OpsPairs)
              [] Mode = "alts"   -> Comparators(OpsPairs)
FirstSeq == SetToSeq(FirstSet)
FirstPick == { FirstSeq[i] : i \in { j \in 1..Len(FirstSeq) : j % Of = Slice % Of } }
Seconds(f) ==
  CASE Mode = "single" -> { OneCmp(ApplyKnob(f, k)) : k \in Knobs }
    [] Mode = "hyphen" -> { OneCmp(HyphenOf(f, hi)) : hi \in Partials }
                          \* several blanks / a tab around the dash
                          \cup { OneCmp([HyphenOf(f, hi) EXCEPT !.ls = <<32, 32>>, !.rs = <<9>>]) :
                                   hi \in { x \in Partials : x.pre = <<tagA>> \/ x.m.t = "abs" } }
    [] Mode = "pairs"  -> { RangeOf(<< AltOf(<<f, b>>) >>) : b \in PairB } \cup { RangeOf(<< AltOf(<<b, f>>) >>) : b \in PairB }
    [] Mode = "alts"   -> { RangeOf(<< AltOf(<<f>>), AltOf(<<b>>) >>) : b \in PairB }
                          \cup { [RangeOf(<< AltOf(<<f>>), AltOf(<<b>>) >>) EXCEPT !.ors = << [l |-> <<32>>, r |-> <<32, 32>>] >>] : b \in PairB }
                          \cup { RangeOf(<< AltOf(<<g, f>>) >>) : g \in Garbage }
                          \cup { RangeOf(<< AltOf(<<f, g>>) >>) : g \in Garbage }
                          \cup { [RangeOf(<< AltOf(<<f, g, b>>) >>) EXCEPT !.alts[1].seps = << <<32, 32>>, <<32>> >>] : g \in Garbage, b \in {x \in PairB : x.pa.pre = <<tagA>>} }
                          \cup { [RangeOf(<< AltOf(<<f, g, b>>) >>) EXCEPT !.alts[1].seps = << <<9>>, <<9>> >>] : g \in Garbage, b \in {x \in PairB : x.pa.pre = <<tag0>>} }
                          \cup { RangeOf(<< AltOf(<<g>>), AltOf(<<f>>) >>) : g \in Garbage }
                          \cup { RangeOf(<< AltOf(<<f>>), AltOf(<<g>>) >>) : g \in Garbage }
                          \cup { RangeOf(<< AltOf(<<g>>) >>) : g \in Garbage }

\* background grid: releases {0..3}^3 and the prereleases -0, -a of {0,1,2} x {0,1} x {0,1}
Grid == { V3(D(a), D(b), D(c)) : a \in 0..3, b \in 0..3, c \in 0..3 }
        \cup { V4(D(a), D(b), D(c), pre) : a \in 0..2, b \in 0..1, c \in 0..1, pre \in { <<N0>>, <<TxtId(tagA)>>, <<TxtId(tagA), N0>>, <<TxtId(<<98>>)>> } }
PFor(rg) == Probes(AstEnds(rg) \cup Ends(FoldRange(rg))) \cup Grid
UseGrid(rg) == Mode # "single" \/ (rg.alts[1].cs[1].sp = <<>> /\ ~rg.alts[1].cs[1].pa.v /\ rg.alts[1].cs[1].pa.bld = <<>> /\ ~rg.alts[1].cs[1].pa.nohy)
CaseProbes(rg) == IF UseGrid(rg) THEN PFor(rg) ELSE Probes(AstEnds(rg))

ValidPlain(c) == c.op \notin {"garbage", "hyphen"}
EmitCase(rg) ==
  IF CaseOp = "rparse" THEN
    PrintT(<<"CASE", ToJson([op |-> "rparse", dst |-> 1, text |-> RenderRange(rg), ast |-> rg, vs |-> SetToSeq(CaseProbes(rg))])>>)
  ELSE IF Len(rg.alts) = 2 THEN
    PrintT(<<"CASE", ToJson([op |-> "concat", kind |-> "or", a |-> RenderAlt(rg.alts[1]), b |-> RenderAlt(rg.alts[2]),
                             vs |-> SetToSeq(CaseProbes(rg))])>>)
  ELSE IF Len(rg.alts[1].cs) = 2 /\ ValidPlain(rg.alts[1].cs[1]) /\ ValidPlain(rg.alts[1].cs[2]) THEN
    PrintT(<<"CASE", ToJson([op |-> "concat", kind |-> "and", a |-> RenderCmp(rg.alts[1].cs[1]), b |-> RenderCmp(rg.alts[1].cs[2]),
                             vs |-> SetToSeq(CaseProbes(rg))])>>)
  ELSE TRUE
Next == \/ /\ first = Nil
           /\ first' \in FirstPick
           /\ r' = Nil
        \/ /\ first # Nil /\ r = Nil
           /\ r' \in Seconds(first)
           /\ first' = first
           /\ (Emit => EmitCase(r'))
Spec == Init /\ [][Next]_vars

Ready == r # Nil
\* the crate's representation (one interval per alternative + interval gate) can express npm's meaning exactly
InvFoldMeans == Ready => \A v \in PFor(r) : RSat(FoldRange(r), v) <=> Means(r, v)
\* unsatisfiable texts are exactly those nothing in the probe set satisfies
InvUnsat == Ready => (Unsat(r) <=> \A v \in PFor(r) : ~Means(r, v))
\* order of comparators / alternatives is irrelevant (by construction of Means; checked on the fold)
Rev(s) == [i \in 1..Len(s) |-> s[Len(s) + 1 - i]]
InvOrder == Ready => LET r2 == [r EXCEPT !.alts = Rev([i \in 1..Len(r.alts) |-> [r.alts[i] EXCEPT !.cs = Rev(@)]])]
                     IN \A v \in PFor(r) : RSat(FoldRange(r2), v) <=> RSat(FoldRange(r), v)
\* C13 at design level: every interval a text folds to prints (crate Display format) to a text whose
\* meaning is the interval again
PV(v) == [v |-> FALSE, M |-> CNum(v.M), m |-> CNum(v.m), p |-> CNum(v.p),
          pre |-> [i \in 1..Len(v.pre) |-> IdBytes(v.pre[i])], bld |-> [i \in 1..Len(v.bld) |-> IdBytes(v.bld[i])], nohy |-> FALSE]
AstOfIv(iv) ==
  LET lo == iv.lo  up == iv.up
      L == IF lo.k = "unb" THEN <<>> ELSE << CmpOf(IF lo.k = "inc" THEN ">=" ELSE ">", PV(lo.v)) >>
      U == IF up.k = "unb" THEN <<>> ELSE << CmpOf(IF up.k = "inc" THEN "<=" ELSE "<", PV(up.v)) >>
  IN IF lo.k = "inc" /\ up.k = "inc" /\ VEq(lo.v, up.v) THEN AltOf(<< CmpOf("", PV(lo.v)) >>)
     ELSE AltOf(L \o U)
\* the byte-level parser of RangeText.tla reads back every rendered tree: determined, and with the same meaning
InvParseRender ==
  Ready => LET pr == ParseRangeText(RenderRange(r)) IN
           /\ pr.det
           /\ NoValid(pr.ast) = NoValid(r)
           /\ \A v \in PFor(r) : Means(pr.ast, v) <=> Means(r, v)
           /\ (Len(r.alts) = 1 => Tags(pr.ast.alts[1]) = Tags(r.alts[1]))
InvPrintRoundTrip ==
  Ready => LET F == FoldRange(r) IN
           \A i \in 1..Len(F) :
              /\ F[i] # AnyIv
              /\ RenderAlt(AstOfIv(F[i])) = PrintIv(F[i])
              /\ FoldAlt(AstOfIv(F[i])) = <<F[i]>>
              /\ \A v \in PFor(r) : MeansAlt(AstOfIv(F[i]), v) <=> SatIv(F[i], v)
=============================================================================
