------------------------------- MODULE MC_Lists -------------------------------
(***************************************************************************)
(* Bounded instance for max_satisfying / min_satisfying (C14): every       *)
(* interval over a small endpoint set x every list of up to MaxList        *)
(* versions over a universe with a release, two prereleases of it, a       *)
(* build-only variant, the next patch's -0 and a higher release - so lists *)
(* are unsorted, contain duplicates, precedence-equal elements and         *)
(* prereleases above the highest satisfying release.                       *)
(* Design-level: an answer allowed by the postcondition exists whenever    *)
(* some element satisfies (precedence is total), and it is unique up to    *)
(* precedence-equality.                                                    *)
(***************************************************************************)
EXTENDS Interval, TLC, Json, SequencesExt

CONSTANTS MaxList, Emit, Slice, Of

D(n) == FromNat(n)
a_ == TxtId(<<97>>)
b_ == TxtId(<<98>>)
Endpoints == { V4(D(1), D(0), D(0), <<a_>>), V3(D(1), D(0), D(0)), V4(D(1), D(0), D(1), <<N0>>) }
Bounds == {Unb} \cup {Inc(v) : v \in Endpoints} \cup {Exc(v) : v \in Endpoints}
Ivs == {iv \in {Iv(lo, up) : lo \in Bounds, up \in Bounds} : ValidIv(iv) /\ iv # AnyIv}
Universe == << V4(D(1), D(0), D(0), <<a_>>), V4(D(1), D(0), D(0), <<b_>>), V3(D(1), D(0), D(0)),
               Ver(D(1), D(0), D(0), <<>>, <<b_>>),           \* equal to 1.0.0 up to build metadata
               V4(D(1), D(0), D(1), <<N0>>), V3(D(2), D(0), D(0)), V3(D(0), D(9), D(9)) >>
NU == Len(Universe)
IvSeq == SetToSeq(Ivs)

Nil == <<>>
VARIABLES iv, list
vars == <<iv, list>>
Init == iv = Nil /\ list = Nil
Lists == UNION { [1..n -> 1..NU] : n \in 1..MaxList }
Next == \/ /\ iv = Nil
           /\ \E i \in { j \in 1..Len(IvSeq) : j % Of = Slice % Of } : iv' = IvSeq[i]
           /\ list' = Nil
        \/ /\ iv # Nil /\ list = Nil
           /\ \E l \in Lists : list' = [i \in 1..Len(l) |-> Universe[l[i]]]
           /\ iv' = iv
           /\ (Emit => PrintT(<<"CASE", ToJson([op |-> "steps", steps |->
                  << [c |-> "rload", dst |-> 1, val |-> <<iv>>], [c |-> "maxsat", a |-> 1, list |-> list'] >>])>>))
Spec == Init /\ [][Next]_vars

Sat(k) == SatIv(iv, list[k])
S == {k \in 1..Len(list) : Sat(k)}
MaxOk(k) == k \in S /\ \A j \in S : VLe(list[j], list[k])
MinOk(k) == k \in S /\ \A j \in S : VLe(list[k], list[j])
InvAnswerExists ==
  list # Nil => /\ (S # {} => (\E k \in S : MaxOk(k)) /\ (\E k \in S : MinOk(k)))
                /\ \A k \in S, j \in S : (MaxOk(k) /\ MaxOk(j)) => VEq(list[k], list[j])
=============================================================================
