-------------------------------- MODULE Trace --------------------------------
(***************************************************************************)
(* Trace validation: replays a recorded ndjson trace of API calls through  *)
(* the Api state machine.  Registers always advance to the logged values,  *)
(* so one non-conforming call does not hide the rest of the trace; every   *)
(* violated clause is accumulated in `bad` and printed at the end.         *)
(*   TRACE=<file> tlc -config Trace.cfg Trace.tla                          *)
(***************************************************************************)
EXTENDS Api, Json, IOUtils, TLC

Rec == ndJsonDeserialize(IOEnv.TRACE)

VARIABLES l, rr, org, bad
vars == <<l, rr, org, bad>>

MaxBad == 3000

Init == l = 1 /\ rr = InitRegs /\ org = InitOrg /\ bad = {}

Next == /\ l <= Len(Rec)
        /\ l' = l + 1
        /\ LET e == Rec[l]
               tags == Judge(rr, org, e)
           IN /\ rr' = RegStep(rr, e)
              /\ org' = StepOrg(org, e)
              /\ bad' = IF Cardinality(bad) >= MaxBad THEN bad
                        ELSE bad \cup {<<l, e.cid, t>> : t \in tags}

Spec == Init /\ [][Next]_vars

Done == l = Len(Rec) + 1
\* printed exactly once, in the final state
Report == Done => PrintT(<<"BAD", Len(Rec), ToJson(bad)>>)
\* every line of the trace was consumed
Accepted == TLCGet("stats").diameter - 1 = Len(Rec)
=============================================================================
