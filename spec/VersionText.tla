----------------------------- MODULE VersionText -----------------------------
(***************************************************************************)
(* The version-string language as a byte-level state machine, and the      *)
(* postcondition of Version::parse (C05), of the print/parse round trip    *)
(* (C12) and of error reporting (C17).                                     *)
(*                                                                         *)
(* VStep(s, c) consumes one byte.  The first failure is absorbing and       *)
(* records its kind and offset.  VFinish(s) classifies the whole input:     *)
(*   MUST-accept  canonical  major.minor.patch[-pre][+build]               *)
(*                (a decimal component may have leading zeros: `007` is 7) *)
(*   MAY-accept   canonical core plus documented decorations: surrounding  *)
(*                blanks, leading v/V (and blanks after it), prerelease    *)
(*                written without its hyphen                               *)
(*   MUST-reject  everything else; components above MAX_SAFE_INTEGER;      *)
(*                length above MAX_LENGTH                                  *)
(* In both accept classes the fields are exactly the denoted ones.         *)
(***************************************************************************)
EXTENDS Version, FiniteSets

MAX_LENGTH == 256

IsDigit(c) == c >= 48 /\ c <= 57
IsAlpha(c) == (c >= 65 /\ c <= 90) \/ (c >= 97 /\ c <= 122)
IsIdent(c) == IsDigit(c) \/ IsAlpha(c) \/ c = 45
IsBlank(c) == c \in {32, 9, 10, 13}

VS0 == [ph |-> "lead", M |-> <<>>, m |-> <<>>, p |-> <<>>, pre |-> <<>>, bld |-> <<>>, cur |-> <<>>,
       dec |-> FALSE, loose |-> FALSE, pos |-> 0, cstart |-> 0, fkind |-> "none", foff |-> 0]

\* generic syntax failure at the current byte
VDead(s) == [s EXCEPT !.ph = "dead", !.fkind = "syntax", !.foff = s.pos]
\* a numeric component is complete: range check (first failure if it does not fit)
NumFail(s, d) == IF ~FitsU64(d) THEN [s EXCEPT !.ph = "dead", !.fkind = "parseint", !.foff = s.cstart]
                 ELSE [s EXCEPT !.ph = "dead", !.fkind = "maxint", !.foff = s.cstart]
DVal(c) == c - 48
LooseNum(d) == Len(d) > 1 /\ d[1] = 0

VStepLive(s, c) ==
  CASE s.ph = "lead" ->
         IF IsBlank(c) THEN [s EXCEPT !.dec = TRUE]
         ELSE IF c = 118 \/ c = 86 THEN [s EXCEPT !.ph = "afterv", !.dec = TRUE]
         ELSE IF IsDigit(c) THEN [s EXCEPT !.ph = "M", !.M = <<DVal(c)>>, !.cstart = s.pos]
         ELSE VDead(s)
    [] s.ph = "afterv" ->
         IF IsBlank(c) THEN s
         ELSE IF IsDigit(c) THEN [s EXCEPT !.ph = "M", !.M = <<DVal(c)>>, !.cstart = s.pos]
         ELSE VDead(s)
    [] s.ph = "M" ->
         IF IsDigit(c) THEN [s EXCEPT !.M = Append(@, DVal(c))]
         ELSE IF ~FitsSafe(s.M) THEN NumFail(s, s.M)
         ELSE IF c = 46 THEN [s EXCEPT !.ph = "m0"]
         ELSE VDead(s)
    [] s.ph = "m0" -> IF IsDigit(c) THEN [s EXCEPT !.ph = "m", !.m = <<DVal(c)>>, !.cstart = s.pos] ELSE VDead(s)
    [] s.ph = "m" ->
         IF IsDigit(c) THEN [s EXCEPT !.m = Append(@, DVal(c))]
         ELSE IF ~FitsSafe(s.m) THEN NumFail(s, s.m)
         ELSE IF c = 46 THEN [s EXCEPT !.ph = "p0"]
         ELSE VDead(s)
    [] s.ph = "p0" -> IF IsDigit(c) THEN [s EXCEPT !.ph = "p", !.p = <<DVal(c)>>, !.cstart = s.pos] ELSE VDead(s)
    [] s.ph = "p" ->
         IF IsDigit(c) THEN [s EXCEPT !.p = Append(@, DVal(c))]
         ELSE IF ~FitsSafe(s.p) THEN NumFail(s, s.p)
         ELSE LET t == s IN
              IF c = 45 THEN [t EXCEPT !.ph = "pre0"]
              ELSE IF c = 43 THEN [t EXCEPT !.ph = "b0"]
              ELSE IF IsAlpha(c) THEN [t EXCEPT !.ph = "pre", !.cur = <<c>>, !.loose = TRUE]
              ELSE IF IsBlank(c) THEN [t EXCEPT !.ph = "trail", !.dec = TRUE]
              ELSE VDead(s)
    [] s.ph = "pre0" -> IF IsIdent(c) THEN [s EXCEPT !.ph = "pre", !.cur = <<c>>] ELSE VDead(s)
    [] s.ph = "pre" ->
         IF IsIdent(c) THEN [s EXCEPT !.cur = Append(@, c)]
         ELSE IF c = 46 THEN [s EXCEPT !.ph = "pre0", !.pre = Append(@, s.cur), !.cur = <<>>]
         ELSE IF c = 43 THEN [s EXCEPT !.ph = "b0", !.pre = Append(@, s.cur), !.cur = <<>>]
         ELSE IF IsBlank(c) THEN [s EXCEPT !.ph = "trail", !.pre = Append(@, s.cur), !.cur = <<>>, !.dec = TRUE]
         ELSE VDead(s)
    [] s.ph = "b0" -> IF IsIdent(c) THEN [s EXCEPT !.ph = "b", !.cur = <<c>>] ELSE VDead(s)
    [] s.ph = "b" ->
         IF IsIdent(c) THEN [s EXCEPT !.cur = Append(@, c)]
         ELSE IF c = 46 THEN [s EXCEPT !.ph = "b0", !.bld = Append(@, s.cur), !.cur = <<>>]
         ELSE IF IsBlank(c) THEN [s EXCEPT !.ph = "trail", !.bld = Append(@, s.cur), !.cur = <<>>, !.dec = TRUE]
         ELSE VDead(s)
    [] s.ph = "trail" -> IF IsBlank(c) THEN s ELSE VDead(s)

VStep(s, c) == IF s.ph = "dead" THEN [s EXCEPT !.pos = @ + 1]
              ELSE LET t == VStepLive(s, c) IN [t EXCEPT !.pos = s.pos + 1]

RECURSIVE VRunFrom(_, _, _)
VRunFrom(s, bytes, i) == IF i > Len(bytes) THEN s ELSE VRunFrom(VStep(s, bytes[i]), bytes, i + 1)
VRun(bytes) == VRunFrom(VS0, bytes, 1)

\* identifier as the crate denotes it: digits-only text that fits u64 is a number
AllDigits(b) == \A i \in 1..Len(b) : IsDigit(b[i])
IdOf(b) == IF AllDigits(b) /\ FitsU64([i \in 1..Len(b) |-> DVal(b[i])])
           THEN NumId(Norm([i \in 1..Len(b) |-> DVal(b[i])]))
           ELSE TxtId(b)
IdsOf(l) == [i \in 1..Len(l) |-> IdOf(l[i])]

\* end of input: verdict class, fields, first failure
VFinish(s) ==
  LET okRec(pre, bld, must) ==
        [ok |-> TRUE, must |-> must,
         val |-> Ver(Norm(s.M), Norm(s.m), Norm(s.p), IdsOf(pre), IdsOf(bld)), fkind |-> "none", foff |-> 0]
      fail(kind, off) == [ok |-> FALSE, must |-> FALSE, val |-> <<>>, fkind |-> kind, foff |-> off]
  IN CASE s.ph = "dead" -> fail(s.fkind, s.foff)
       [] s.ph = "p" -> IF ~FitsSafe(s.p)
                        THEN fail(IF FitsU64(s.p) THEN "maxint" ELSE "parseint", s.cstart)
                        ELSE okRec(s.pre, s.bld, ~s.dec /\ ~s.loose)
       [] s.ph = "pre" -> okRec(Append(s.pre, s.cur), s.bld, ~s.dec /\ ~s.loose)
       [] s.ph = "b" -> okRec(s.pre, Append(s.bld, s.cur), ~s.dec /\ ~s.loose)
       [] s.ph = "trail" -> okRec(s.pre, s.bld, FALSE)
       [] s.ph \in {"M", "m"} ->
             LET d == IF s.ph = "M" THEN s.M ELSE s.m IN
             IF ~FitsSafe(d) THEN fail(IF FitsU64(d) THEN "maxint" ELSE "parseint", s.cstart)
             ELSE fail("syntax", s.pos)
       [] OTHER -> fail("syntax", s.pos)

\* the value of the component at which a "maxint" failure happened
FailedComponent(s) == IF s.m = <<>> THEN s.M ELSE IF s.p = <<>> THEN s.m ELSE s.p

VClassify(bytes) ==
  LET s == VRun(bytes)
      f == VFinish(s)
      long == Len(bytes) > MAX_LENGTH
  IN [class |-> IF long \/ ~f.ok THEN "reject" ELSE IF f.must THEN "must" ELSE "may",
      val |-> f.val,
      \* first failure; "maxlength" for an otherwise well-formed version that is too long
      fkind |-> IF long /\ f.ok THEN "maxlength" ELSE f.fkind,
      foff |-> f.foff,
      comp |-> IF f.fkind = "maxint" THEN Norm(FailedComponent(s)) ELSE <<>>,
      \* nothing but canonical text precedes the failure (no decoration an implementation may refuse)
      plain |-> ~s.dec /\ ~s.loose,
      long |-> long]

\* ---- error reporting (C17) ----
IsCont(c) == c >= 128 /\ c <= 191
IsBoundary(bytes, off) == off >= 0 /\ off <= Len(bytes) /\ (off = Len(bytes) \/ ~IsCont(bytes[off + 1]))
Newlines(bytes, off) == Cardinality({i \in 1..off : bytes[i] = 10})
LineStart(bytes, off) == LET nl == {i \in 1..off : bytes[i] = 10} IN IF nl = {} THEN 0 ELSE CHOOSE i \in nl : \A j \in nl : j <= i
\* column counted in bytes, or in characters (both readings of "column" are accepted)
ColBytes(bytes, off) == off - LineStart(bytes, off)
ColChars(bytes, off) == Cardinality({i \in (LineStart(bytes, off) + 1)..off : ~IsCont(bytes[i])})

\* clauses common to Version::parse and Range::parse errors
JErr(text, err) ==
       Chk(err.input = text, "C17:input-is-original")
  \cup Chk(err.off >= 0 /\ err.off <= Len(text), "C17:offset-in-range")
  \cup Chk(err.off <= Len(err.input) => IsBoundary(err.input, err.off), "C17:offset-on-char-boundary")
  \cup Chk(err.loc.out = "ok", "C17:location-panics")
  \cup Chk(err.loc.out = "ok" /\ err.diag.out = "ok", "C06:error-accessor-panics")
  \cup Chk((err.loc.out = "ok" /\ err.input = text /\ err.off <= Len(text)) =>
             (err.loc.line = Newlines(text, err.off)
              /\ err.loc.col \in {ColBytes(text, err.off), ColChars(text, err.off)}), "C17:location")
  \cup Chk(err.diag.out = "ok", "C17:diagnostic-panics")
  \cup Chk(err.diag.out = "ok" =>
             (err.diag.render_ok /\ err.diag.has_src /\ Len(err.diag.code) > 0 /\ Len(err.diag.labels) = 1
              /\ err.diag.labels[1].off = err.off), "C17:diagnostic-renders")
  \cup Chk(err.kind = "MaxIntError" => FitsU64(err.kval) /\ ~FitsSafe(err.kval), "C17:maxint-value")

JVParse(e) ==
  LET c == VClassify(e.text)
      t == e.text
  IN
  \* ---- C05
       Chk(c.class = "must" => e.out = "ok", "C05:canonical-rejected")
  \cup Chk(c.class = "reject" => e.out = "err", "C05:junk-accepted")
  \cup Chk((c.class # "reject" /\ e.out = "ok") => e.val = c.val, "C05:fields")
  \cup Chk(e.fromstr.out = e.out /\ (e.out = "ok" => e.fromstr.val = e.val), "X:fromstr-agrees")
  \* `text.parse::<Version>()` is the same entry point under another name: the same three clauses (it may differ from
  \* Version::parse only inside what the property leaves open)
  \cup Chk(c.class = "must" => e.fromstr.out = "ok", "C05:canonical-rejected-fromstr")
  \cup Chk(c.class = "reject" => e.fromstr.out = "err", "C05:junk-accepted-fromstr")
  \cup Chk((c.class # "reject" /\ e.fromstr.out = "ok") => e.fromstr.val = c.val, "C05:fields-fromstr")
  \cup Chk(e.deser.out = e.out /\ (e.out = "ok" => e.deser.val = e.val), "C05:serde-deserialize-agrees")
  \* ---- C12
  \cup (IF e.out = "ok" THEN
          LET plain ==
                 Chk(e.print = PrintVersion(e.val), "C12:print")
            \cup Chk(e.re.out = "ok" /\ e.re.val = e.val, "C12:reparse-equal-five-fields")
            \cup Chk(e.print2 = e.print, "C12:fixed-point")
            \cup Chk(e.json = <<34>> \o e.print \o <<34>>, "C12:json-is-printed-string")
            \cup Chk(e.jback.out = "ok" /\ e.jback.val = e.val, "C12:json-roundtrip")
            \cup Chk(\A k \in Idx(e.jroutes) : e.jroutes[k].out = "ok" /\ e.jroutes[k].val = e.val, "C12:json-roundtrip-other-routes")
              \* Named deviation "PrintedFormExceedsMaxLength" (known finding): a text of exactly MAX_LENGTH bytes that
              \* was accepted with its prerelease written without the hyphen prints one byte longer, and the printed
              \* form is then refused as too long.  Everything else about the round trip must still hold.
              explained == /\ Len(PrintVersion(e.val)) > MAX_LENGTH
                           /\ e.print = PrintVersion(e.val)
                           /\ e.json = <<34>> \o e.print \o <<34>>
                           /\ e.re.out = "err" /\ e.re.err.kind = "MaxLengthError"
          IN (IF plain = {} THEN {} ELSE IF explained THEN {"C12:reparse@PrintedFormExceedsMaxLength"} ELSE plain)
             \cup Chk(e.ispre = IsPre(e.val), "X:is-prerelease")
        ELSE {})
  \* ---- C17
  \cup (IF e.out = "err" THEN
            JErr(t, e.err)
       \cup Chk(c.fkind = "maxlength" => e.err.kind = "MaxLengthError", "C17:kind-maxlength")
       \cup Chk(e.err.kind = "MaxLengthError" => c.long, "C17:kind-maxlength")
       \cup Chk((c.fkind = "maxint" /\ c.plain /\ ~c.long) =>
                   (e.err.kind = "MaxIntError" /\ e.err.kval = c.comp /\ e.err.off = c.foff), "C17:kind-maxint")
       \cup Chk((c.fkind = "parseint" /\ c.plain /\ ~c.long) =>
                   (e.err.kind = "ParseIntError" /\ e.err.off = c.foff), "C17:kind-parseint")
       \* after a decoration an implementation may refuse earlier with another kind; but if it does report the
       \* component's kind, it reports the component's position and value
       \cup Chk((c.fkind = "maxint" /\ ~c.plain /\ ~c.long /\ e.err.kind = "MaxIntError") =>
                   (e.err.kval = c.comp /\ e.err.off = c.foff), "C17:kind-maxint-position")
       \cup Chk((c.fkind = "parseint" /\ ~c.plain /\ ~c.long /\ e.err.kind = "ParseIntError") =>
                   e.err.off = c.foff, "C17:kind-parseint-position")
       \cup Chk(e.err.kind = "NoValidRanges" => FALSE, "C17:kind-novalidranges-from-version-parse")
        ELSE {})
  \* ---- C06 (time budget: 50 ms + 100 us per byte)
  \cup Chk(e.us <= 50000 + 100 * Len(t), "C06:time-budget")
=============================================================================
