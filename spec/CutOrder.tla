------------------------------ MODULE CutOrder ------------------------------
(***************************************************************************)
(* The cut algebra of Interval.tla over an ARBITRARY strict total order    *)
(* (S, Lt), proved with TLAPS.  apalache/IntervalInt.tla checks the same   *)
(* four lemmas for integer endpoints; this module removes the remark "the  *)
(* formulas use only the order": the only facts used about Lt are          *)
(* irreflexivity, transitivity and totality, which SemVer precedence has   *)
(* (MC_Version, apalache/OrderInt.tla).                                    *)
(*   tlapm --threads 8 CutOrder.tla                                        *)
(***************************************************************************)
EXTENDS Integers, Sequences

CONSTANTS S, Lt(_, _)

ASSUME Irrefl  == \A x \in S : ~Lt(x, x)
ASSUME Trans   == \A x, y, z \in S : Lt(x, y) /\ Lt(y, z) => Lt(x, z)
ASSUME Total   == \A x, y \in S : Lt(x, y) \/ x = y \/ Lt(y, x)

Kinds == {"unb", "inc", "exc"}
Bnd   == [k : Kinds, v : S]

InLo(lo, p) == lo.k = "unb" \/ (lo.k = "inc" /\ (Lt(lo.v, p) \/ lo.v = p)) \/ (lo.k = "exc" /\ Lt(lo.v, p))
InUp(up, p) == up.k = "unb" \/ (up.k = "inc" /\ (Lt(p, up.v) \/ p = up.v)) \/ (up.k = "exc" /\ Lt(p, up.v))
LSide(b) == IF b.k = "inc" THEN 0 ELSE 1
USide(b) == IF b.k = "inc" THEN 1 ELSE 0
CutLt(v1, s1, v2, s2) == Lt(v1, v2) \/ (v1 = v2 /\ s1 < s2)
CutLe(v1, s1, v2, s2) == Lt(v1, v2) \/ (v1 = v2 /\ s1 <= s2)
LowBelowUp(lo, up) == lo.k = "unb" \/ up.k = "unb" \/ CutLt(lo.v, LSide(lo), up.v, USide(up))
LowLe(a, b) == a.k = "unb" \/ (b.k # "unb" /\ CutLe(a.v, LSide(a), b.v, LSide(b)))
UpLe(a, b)  == b.k = "unb" \/ (a.k # "unb" /\ CutLe(a.v, USide(a), b.v, USide(b)))
MaxLo(a, b) == IF LowLe(a, b) /\ ~LowLe(b, a) THEN b ELSE a
MinUp(a, b) == IF UpLe(b, a) /\ ~UpLe(a, b) THEN b ELSE a
FlipToUp(lo) == [k |-> IF lo.k = "inc" THEN "exc" ELSE "inc", v |-> lo.v]
FlipToLo(up) == [k |-> IF up.k = "inc" THEN "exc" ELSE "inc", v |-> up.v]

In(lo, up, p) == InLo(lo, p) /\ InUp(up, p)

\* C07: max lower cut / min upper cut is exactly the intersection
THEOREM LemmaIntersectMember ==
  ASSUME NEW aLo \in Bnd, NEW aUp \in Bnd, NEW bLo \in Bnd, NEW bUp \in Bnd, NEW p \in S
  PROVE  In(MaxLo(aLo, bLo), MinUp(aUp, bUp), p) <=> (In(aLo, aUp, p) /\ In(bLo, bUp, p))
<1>1. InLo(MaxLo(aLo, bLo), p) <=> (InLo(aLo, p) /\ InLo(bLo, p))
  BY Irrefl, Trans, Total DEF Bnd, Kinds, InLo, MaxLo, LowLe, CutLe, LSide
<1>2. InUp(MinUp(aUp, bUp), p) <=> (InUp(aUp, p) /\ InUp(bUp, p))
  BY Irrefl, Trans, Total DEF Bnd, Kinds, InUp, MinUp, UpLe, CutLe, USide
<1> QED BY <1>1, <1>2 DEF In

\* C07: an invalid (crossed) result means nothing is in both
THEOREM LemmaIntersectEmpty ==
  ASSUME NEW aLo \in Bnd, NEW aUp \in Bnd, NEW bLo \in Bnd, NEW bUp \in Bnd, NEW p \in S,
         ~LowBelowUp(MaxLo(aLo, bLo), MinUp(aUp, bUp))
  PROVE  ~(In(aLo, aUp, p) /\ In(bLo, bUp, p))
<1>1. \A lo, up \in Bnd : In(lo, up, p) => LowBelowUp(lo, up)
  BY Irrefl, Trans, Total DEF Bnd, Kinds, In, InLo, InUp, LowBelowUp, CutLt, LSide, USide
<1>2. MaxLo(aLo, bLo) \in Bnd /\ MinUp(aUp, bUp) \in Bnd
  BY DEF MaxLo, MinUp
<1> QED BY <1>1, <1>2, LemmaIntersectMember

\* C09: the two disjointness tests decide exactly whether the intersection is a valid interval
THEOREM LemmaOverlap ==
  ASSUME NEW aLo \in Bnd, NEW aUp \in Bnd, NEW bLo \in Bnd, NEW bUp \in Bnd,
         LowBelowUp(aLo, aUp), LowBelowUp(bLo, bUp)
  PROVE  (LowBelowUp(aLo, bUp) /\ LowBelowUp(bLo, aUp)) <=> LowBelowUp(MaxLo(aLo, bLo), MinUp(aUp, bUp))
  BY Irrefl, Trans, Total
  DEF Bnd, Kinds, LowBelowUp, MaxLo, MinUp, LowLe, UpLe, CutLt, CutLe, LSide, USide

\* C08: what of a lies below b, plus what of a lies above b, is exactly a minus b
THEOREM LemmaDifference ==
  ASSUME NEW aLo \in Bnd, NEW aUp \in Bnd, NEW bLo \in Bnd, NEW bUp \in Bnd, NEW p \in S,
         LowBelowUp(aLo, aUp), LowBelowUp(bLo, bUp)
  PROVE  LET P1Up == MinUp(aUp, FlipToUp(bLo))
             P2Lo == MaxLo(aLo, FlipToLo(bUp))
             InP1 == bLo.k # "unb" /\ LowBelowUp(aLo, P1Up) /\ In(aLo, P1Up, p)
             InP2 == bUp.k # "unb" /\ LowBelowUp(P2Lo, aUp) /\ In(P2Lo, aUp, p)
         IN  (InP1 \/ InP2) <=> (In(aLo, aUp, p) /\ ~In(bLo, bUp, p))
<1> DEFINE P1Up == MinUp(aUp, FlipToUp(bLo))
           P2Lo == MaxLo(aLo, FlipToLo(bUp))
<1>0. \A lo, up \in Bnd : In(lo, up, p) => LowBelowUp(lo, up)
  BY Irrefl, Trans, Total DEF Bnd, Kinds, In, InLo, InUp, LowBelowUp, CutLt, LSide, USide
<1>a. FlipToUp(bLo) \in Bnd /\ FlipToLo(bUp) \in Bnd
  BY DEF Bnd, Kinds, FlipToUp, FlipToLo
<1>b. P1Up \in Bnd /\ P2Lo \in Bnd
  BY <1>a DEF MinUp, MaxLo
<1>1. InUp(P1Up, p) <=> (InUp(aUp, p) /\ InUp(FlipToUp(bLo), p))
  BY <1>a, Irrefl, Trans, Total DEF Bnd, Kinds, InUp, MinUp, UpLe, CutLe, USide
<1>2. InLo(P2Lo, p) <=> (InLo(aLo, p) /\ InLo(FlipToLo(bUp), p))
  BY <1>a, Irrefl, Trans, Total DEF Bnd, Kinds, InLo, MaxLo, LowLe, CutLe, LSide
<1>3. bLo.k # "unb" => (InUp(FlipToUp(bLo), p) <=> ~InLo(bLo, p))
  BY Irrefl, Trans, Total DEF Bnd, Kinds, InUp, InLo, FlipToUp
<1>4. bUp.k # "unb" => (InLo(FlipToLo(bUp), p) <=> ~InUp(bUp, p))
  BY Irrefl, Trans, Total DEF Bnd, Kinds, InUp, InLo, FlipToLo
<1>5. bLo.k = "unb" => InLo(bLo, p)
  BY DEF InLo
<1>6. bUp.k = "unb" => InUp(bUp, p)
  BY DEF InUp
<1>7. In(aLo, P1Up, p) => LowBelowUp(aLo, P1Up)
  BY <1>0, <1>b
<1>8. In(P2Lo, aUp, p) => LowBelowUp(P2Lo, aUp)
  BY <1>0, <1>b
<1> QED BY <1>1, <1>2, <1>3, <1>4, <1>5, <1>6, <1>7, <1>8 DEF In

\* C10: containment of cut intervals is sound
THEOREM LemmaAllowsAll ==
  ASSUME NEW aLo \in Bnd, NEW aUp \in Bnd, NEW bLo \in Bnd, NEW bUp \in Bnd, NEW p \in S,
         LowLe(aLo, bLo), UpLe(bUp, aUp), In(bLo, bUp, p)
  PROVE  In(aLo, aUp, p)
  BY Irrefl, Trans, Total DEF Bnd, Kinds, In, InLo, InUp, LowLe, UpLe, CutLe, LSide, USide

\* ---- lifted to unions of intervals (ranges with several alternatives) ----
Ivl == [lo : Bnd, up : Bnd]
InR(R, p) == \E i \in DOMAIN R : In(R[i].lo, R[i].up, p)

\* C07 for ranges: the union over all pairs of pairwise intersections is the intersection of the unions
THEOREM LemmaIntersectUnion ==
  ASSUME NEW A \in Seq(Ivl), NEW B \in Seq(Ivl), NEW p \in S
  PROVE  (\E i \in DOMAIN A, j \in DOMAIN B : In(MaxLo(A[i].lo, B[j].lo), MinUp(A[i].up, B[j].up), p))
           <=> (InR(A, p) /\ InR(B, p))
<1>1. \A i \in DOMAIN A, j \in DOMAIN B :
        In(MaxLo(A[i].lo, B[j].lo), MinUp(A[i].up, B[j].up), p) <=> (In(A[i].lo, A[i].up, p) /\ In(B[j].lo, B[j].up, p))
  <2> TAKE i \in DOMAIN A, j \in DOMAIN B
  <2>1. A[i] \in Ivl /\ B[j] \in Ivl
    OBVIOUS
  <2>2. A[i].lo \in Bnd /\ A[i].up \in Bnd /\ B[j].lo \in Bnd /\ B[j].up \in Bnd
    BY <2>1 DEF Ivl
  <2> QED BY <2>2, LemmaIntersectMember
<1> QED BY <1>1 DEF InR

\* C10 for a single-alternative right operand: containment in one alternative is sound
THEOREM LemmaAllowsAllUnion ==
  ASSUME NEW A \in Seq(Ivl), NEW b \in Ivl, NEW p \in S,
         \E i \in DOMAIN A : LowLe(A[i].lo, b.lo) /\ UpLe(b.up, A[i].up),
         In(b.lo, b.up, p)
  PROVE  InR(A, p)
<1>1. PICK i \in DOMAIN A : LowLe(A[i].lo, b.lo) /\ UpLe(b.up, A[i].up)
  OBVIOUS
<1>2. A[i] \in Ivl
  OBVIOUS
<1>3. A[i].lo \in Bnd /\ A[i].up \in Bnd /\ b.lo \in Bnd /\ b.up \in Bnd
  BY <1>2 DEF Ivl
<1>4. In(A[i].lo, A[i].up, p)
  BY <1>1, <1>3, LemmaAllowsAll
<1> QED BY <1>4 DEF InR

\* C08 for ranges, one fold step: subtracting b from every piece of a set of valid pieces removes exactly b.
\* (Difference(A, B) of Interval.tla folds this step over the alternatives of B, starting from {a} for each
\* alternative a of A; the fold itself is model-checked, MC_Interval with Alts = 2.)
Valid(x) == LowBelowUp(x.lo, x.up)
Pieces(a, b) ==
  (IF b.lo.k # "unb" /\ LowBelowUp(a.lo, MinUp(a.up, FlipToUp(b.lo)))
     THEN {[lo |-> a.lo, up |-> MinUp(a.up, FlipToUp(b.lo))]} ELSE {})
  \cup
  (IF b.up.k # "unb" /\ LowBelowUp(MaxLo(a.lo, FlipToLo(b.up)), a.up)
     THEN {[lo |-> MaxLo(a.lo, FlipToLo(b.up)), up |-> a.up]} ELSE {})
InSet(Ps, p) == \E x \in Ps : In(x.lo, x.up, p)

THEOREM LemmaPieces ==
  ASSUME NEW a \in Ivl, NEW b \in Ivl, NEW p \in S, Valid(a), Valid(b)
  PROVE  /\ InSet(Pieces(a, b), p) <=> (In(a.lo, a.up, p) /\ ~In(b.lo, b.up, p))
         /\ \A x \in Pieces(a, b) : x \in Ivl /\ Valid(x)
<1>0. a.lo \in Bnd /\ a.up \in Bnd /\ b.lo \in Bnd /\ b.up \in Bnd
  BY DEF Ivl
<1>1. (LET P1Up == MinUp(a.up, FlipToUp(b.lo))
           P2Lo == MaxLo(a.lo, FlipToLo(b.up))
           InP1 == b.lo.k # "unb" /\ LowBelowUp(a.lo, P1Up) /\ In(a.lo, P1Up, p)
           InP2 == b.up.k # "unb" /\ LowBelowUp(P2Lo, a.up) /\ In(P2Lo, a.up, p)
       IN  (InP1 \/ InP2) <=> (In(a.lo, a.up, p) /\ ~In(b.lo, b.up, p)))
  BY <1>0, LemmaDifference DEF Valid
<1>2. InSet(Pieces(a, b), p) <=>
        \/ (b.lo.k # "unb" /\ LowBelowUp(a.lo, MinUp(a.up, FlipToUp(b.lo))) /\ In(a.lo, MinUp(a.up, FlipToUp(b.lo)), p))
        \/ (b.up.k # "unb" /\ LowBelowUp(MaxLo(a.lo, FlipToLo(b.up)), a.up) /\ In(MaxLo(a.lo, FlipToLo(b.up)), a.up, p))
  BY DEF InSet, Pieces
<1>3. FlipToUp(b.lo) \in Bnd /\ FlipToLo(b.up) \in Bnd
  BY <1>0 DEF Bnd, Kinds, FlipToUp, FlipToLo
<1>4. MinUp(a.up, FlipToUp(b.lo)) \in Bnd /\ MaxLo(a.lo, FlipToLo(b.up)) \in Bnd
  BY <1>0, <1>3 DEF MinUp, MaxLo
<1>5. \A x \in Pieces(a, b) : x \in Ivl /\ Valid(x)
  BY <1>0, <1>4 DEF Pieces, Ivl, Valid
<1> QED BY <1>1, <1>2, <1>5

SubStep(Ps, b) == UNION {Pieces(x, b) : x \in Ps}
THEOREM LemmaDifferenceStep ==
  ASSUME NEW Ps \in SUBSET Ivl, NEW b \in Ivl, NEW p \in S, Valid(b), \A x \in Ps : Valid(x)
  PROVE  /\ InSet(SubStep(Ps, b), p) <=> (InSet(Ps, p) /\ ~In(b.lo, b.up, p))
         /\ SubStep(Ps, b) \in SUBSET Ivl /\ \A x \in SubStep(Ps, b) : Valid(x)
<1>1. \A x \in Ps : /\ InSet(Pieces(x, b), p) <=> (In(x.lo, x.up, p) /\ ~In(b.lo, b.up, p))
                    /\ \A y \in Pieces(x, b) : y \in Ivl /\ Valid(y)
  BY LemmaPieces
<1>2. InSet(SubStep(Ps, b), p) <=> \E x \in Ps : InSet(Pieces(x, b), p)
  BY DEF InSet, SubStep
<1>3. InSet(SubStep(Ps, b), p) <=> (InSet(Ps, p) /\ ~In(b.lo, b.up, p))
  BY <1>1, <1>2 DEF InSet
<1>4. \A y \in SubStep(Ps, b) : y \in Ivl /\ Valid(y)
  BY <1>1 DEF SubStep
<1> QED BY <1>3, <1>4

\* ---- the probe argument (DESIGN.md 2.1), order part: membership in an interval depends only on how the
\* version compares with the two endpoint values, so two versions that sit in the same position relative to
\* every endpoint of a set of ranges are in the bounds of exactly the same ranges.  (That every position class
\* has a representative in Probes(E), and the prerelease-gate part, are version-specific: InvProbesComplete.)
SamePos(x, p, q) == (Lt(x, p) <=> Lt(x, q)) /\ (x = p <=> x = q)
THEOREM LemmaProbeClasses ==
  ASSUME NEW lo \in Bnd, NEW up \in Bnd, NEW p \in S, NEW q \in S,
         lo.k # "unb" => SamePos(lo.v, p, q), up.k # "unb" => SamePos(up.v, p, q)
  PROVE  In(lo, up, p) <=> In(lo, up, q)
  BY Irrefl, Trans, Total DEF Bnd, Kinds, In, InLo, InUp, SamePos
THEOREM LemmaProbeClassesUnion ==
  ASSUME NEW R \in Seq(Ivl), NEW p \in S, NEW q \in S,
         \A i \in DOMAIN R : /\ R[i].lo.k # "unb" => SamePos(R[i].lo.v, p, q)
                             /\ R[i].up.k # "unb" => SamePos(R[i].up.v, p, q)
  PROVE  InR(R, p) <=> InR(R, q)
<1>1. \A i \in DOMAIN R : In(R[i].lo, R[i].up, p) <=> In(R[i].lo, R[i].up, q)
  <2> TAKE i \in DOMAIN R
  <2>1. R[i] \in Ivl
    OBVIOUS
  <2>2. R[i].lo \in Bnd /\ R[i].up \in Bnd
    BY <2>1 DEF Ivl
  <2> QED BY <2>2, LemmaProbeClasses
<1> QED BY <1>1 DEF InR
=============================================================================
