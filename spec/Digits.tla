------------------------------- MODULE Digits -------------------------------
(***************************************************************************)
(* Natural numbers as sequences of decimal digits, most significant first. *)
(* TLC integers are 32-bit; the crate's components go up to                *)
(* MAX_SAFE_INTEGER = 900719925474099 and numeric identifiers to 2^64-1,   *)
(* so every number of the specification is a digit sequence.  The same     *)
(* representation is what a version *text* contains, which makes leading   *)
(* zeros ("loose" spelling) expressible.                                   *)
(***************************************************************************)
EXTENDS Integers, Sequences

Digit == 0..9

\* a property clause: the empty set when it holds, its tag when it does not
Chk(cond, tag) == IF cond THEN {} ELSE {tag}
Idx(s) == 1..Len(s)

\* three-way comparison of two sequences of naturals, element by element,
\* a strict prefix being lower (used for digits of equal length and for bytes)
RECURSIVE LexCmp(_, _, _)
LexCmp(a, b, i) ==
  IF i > Len(a) /\ i > Len(b) THEN 0
  ELSE IF i > Len(a) THEN -1
  ELSE IF i > Len(b) THEN 1
  ELSE IF a[i] < b[i] THEN -1
  ELSE IF a[i] > b[i] THEN 1
  ELSE LexCmp(a, b, i + 1)

SeqCmp(a, b) == LexCmp(a, b, 1)

\* canonical form: no leading zeros, zero is <<0>>
RECURSIVE Strip(_)
Strip(d) == IF Len(d) > 1 /\ d[1] = 0 THEN Strip(Tail(d)) ELSE d

Norm(d) == Strip(d)
IsCanon(d) == Len(d) >= 1 /\ (Len(d) = 1 \/ d[1] # 0)
IsDigits(d) == Len(d) >= 1 /\ \A i \in 1..Len(d) : d[i] \in Digit

\* comparison of canonical numbers
NumCmp(a, b) ==
  IF Len(a) < Len(b) THEN -1
  ELSE IF Len(a) > Len(b) THEN 1
  ELSE LexCmp(a, b, 1)

NumLe(a, b) == NumCmp(a, b) # 1
NumLt(a, b) == NumCmp(a, b) = -1

RECURSIVE NumSuccAt(_, _)
NumSuccAt(d, i) ==
  IF i = 0 THEN <<1>> \o d
  ELSE IF d[i] < 9 THEN [d EXCEPT ![i] = @ + 1]
  ELSE NumSuccAt([d EXCEPT ![i] = 0], i - 1)

NumSucc(d) == NumSuccAt(d, Len(d))

\* predecessor of a canonical number > 0
RECURSIVE NumPredAt(_, _)
NumPredAt(d, i) ==
  IF d[i] > 0 THEN [d EXCEPT ![i] = @ - 1]
  ELSE NumPredAt([d EXCEPT ![i] = 9], i - 1)
NumPred(d) == Strip(NumPredAt(d, Len(d)))

Zero == <<0>>
One  == <<1>>
IsZero(d) == d = Zero

\* small naturals to digit sequences (used by the bounded models only)
RECURSIVE FromNat(_)
FromNat(n) == IF n < 10 THEN <<n>> ELSE Append(FromNat(n \div 10), n % 10)

\* JavaScript's Number.MAX_SAFE_INTEGER as the crate defines it (note: the crate's
\* constant is 900_719_925_474_099, one digit shorter than JavaScript's 2^53-1)
MAX_SAFE == <<9,0,0,7,1,9,9,2,5,4,7,4,0,9,9>>
U64_MAX  == <<1,8,4,4,6,7,4,4,0,7,3,7,0,9,5,5,1,6,1,5>>

FitsSafe(d) == NumLe(Norm(d), MAX_SAFE)
FitsU64(d)  == NumLe(Norm(d), U64_MAX)

\* ASCII rendering
DigitsToBytes(d) == [i \in 1..Len(d) |-> d[i] + 48]
=============================================================================
