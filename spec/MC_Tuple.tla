------------------------------ MODULE MC_Tuple ------------------------------
(***************************************************************************)
(* Bounded instance for tuple conversions (C18).                           *)
(*   Mode = "position"  u8 / i8: every non-negative value in every         *)
(*                      position of triples and quadruples, the other      *)
(*                      positions at 0, 9 or the type's maximum            *)
(*   Mode = "grid"      all ten integer types: the full product of a       *)
(*                      five-value boundary grid {0, 1, 10, max-1, max}    *)
(*                      (max capped at MAX_SAFE_INTEGER)                   *)
(* Design-level invariant: the version a tuple denotes prints as the       *)
(* dotted string and that string is a canonical (MUST-accept) version text *)
(* denoting the same fields.                                               *)
(***************************************************************************)
EXTENDS VersionText, TLC, Json

CONSTANTS Mode, Emit

Types8 == { <<"u8", 255>>, <<"i8", 127>> }
TypesAll == { <<"u8", FromNat(255)>>, <<"i8", FromNat(127)>>, <<"u16", FromNat(65535)>>, <<"i16", FromNat(32767)>>,
              <<"u32", <<4,2,9,4,9,6,7,2,9,5>> >>, <<"i32", <<2,1,4,7,4,8,3,6,4,7>> >>,
              <<"u64", MAX_SAFE>>, <<"i64", MAX_SAFE>>, <<"usize", MAX_SAFE>>, <<"isize", MAX_SAFE>> }
Grid(max) == { Zero, One, <<1, 0>>, NumPred(max), max }

Nil == <<>>
VARIABLES ty, vals
vars == <<ty, vals>>
Init == ty = Nil /\ vals = Nil

Emitted(t, vs) == Emit => PrintT(<<"CASE", ToJson([op |-> "vtuple", ty |-> t, vals |-> vs])>>)
Next ==
  \/ /\ ty = Nil /\ Mode = "position"
     /\ \E t \in Types8, arity \in {3, 4} : \E pos \in 1..arity :
          /\ ty' = <<t[1], t[2], arity, pos>>
          /\ vals' = Nil
  \/ /\ ty # Nil /\ vals = Nil /\ Mode = "position"
     /\ \E x \in 0..ty[2], fill \in {0, 9, ty[2]} :
          /\ vals' = [i \in 1..ty[3] |-> IF i = ty[4] THEN FromNat(x) ELSE FromNat(fill)]
          /\ ty' = ty
          /\ Emitted(ty[1], vals')
  \/ /\ ty = Nil /\ Mode = "grid"
     /\ \E t \in TypesAll, arity \in {3, 4} : ty' = <<t[1], t[2], arity, 0>> /\ vals' = Nil
  \/ /\ ty # Nil /\ vals = Nil /\ Mode = "grid"
     /\ vals' \in [1..ty[3] -> Grid(ty[2])]
     /\ ty' = ty
     /\ Emitted(ty[1], vals')
Spec == Init /\ [][Next]_vars

Denoted == IF Len(vals) = 3 THEN FromTuple3(vals[1], vals[2], vals[3]) ELSE FromTuple4(vals[1], vals[2], vals[3], vals[4])
InvTupleRoundTrip ==
  vals # Nil =>
    LET v == Denoted
        f == VFinish(VRun(PrintVersion(v)))
    IN f.ok /\ f.must /\ f.val = v /\ Len(v.pre) = (IF Len(vals) = 4 THEN 1 ELSE 0) /\ v.bld = <<>>
=============================================================================
