----------------------------- MODULE MC_CutBind -----------------------------
(***************************************************************************)
(* Binds proofs/CutOrder.tla (TLAPS: the cut algebra over ANY strict total *)
(* order) to Interval.tla (the definitions the judge evaluates): CutOrder  *)
(* is instantiated with S = build-less versions and Lt = SemVer precedence,*)
(* its three order assumptions are CHECKED on the universe, and every      *)
(* operator of Interval.tla that the lemmas talk about is compared with    *)
(* the proved one on every pair of bounds of the large endpoint universe.  *)
(* So the lemmas apply to the judge's operators, not to a look-alike.      *)
(***************************************************************************)
EXTENDS Interval, TLC

D(n) == FromNat(n)
a_ == TxtId(<<97>>)
Endpoints ==
  { V4(D(1), D(0), D(0), <<a_>>), V4(D(1), D(0), D(0), <<a_, N0>>), V3(D(1), D(0), D(0)),
    V4(D(1), D(0), D(1), <<N0>>), V3(D(2), D(0), D(0)), V4(D(0), D(0), D(0), <<N0>>),
    V3(D(0), D(0), D(0)), V4(D(2), D(0), D(0), <<N0>>) }
Pts == Probes(Endpoints)                 \* build-less by construction
CO == INSTANCE CutOrder WITH S <- Pts, Lt <- VLt

W == CHOOSE v \in Endpoints : TRUE        \* irrelevant filler for the value of an unbounded side
T(b) == IF b.k = "unb" THEN [k |-> "unb", v |-> W] ELSE [k |-> b.k, v |-> b.v]
Bounds == {Unb} \cup {Inc(v) : v \in Endpoints} \cup {Exc(v) : v \in Endpoints}

VARIABLES a, b
vars == <<a, b>>
Init == a \in Bounds /\ b \in Bounds
Next == UNCHANGED vars
Spec == Init /\ [][Next]_vars

\* the assumptions of the proved module hold of SemVer precedence on the universe (C04 covers them in general)
InvOrderAssumptions == CO!Irrefl /\ CO!Trans /\ CO!Total
InvTyped == T(a) \in CO!Bnd /\ Pts \subseteq { v \in Pts : NoBuild(v) = v }

InvSameOperators ==
  /\ LowBelowUp(a, b) <=> CO!LowBelowUp(T(a), T(b))
  /\ T(MaxLo(a, b)) = CO!MaxLo(T(a), T(b))
  /\ T(MinUp(a, b)) = CO!MinUp(T(a), T(b))
  /\ (LowCmp(a, b) # 1) <=> CO!LowLe(T(a), T(b))
  /\ (UpCmp(a, b) # 1) <=> CO!UpLe(T(a), T(b))
  /\ a.k # "unb" => /\ T(FlipToUp(a)) = CO!FlipToUp(T(a))
                    /\ T(FlipToLo(a)) = CO!FlipToLo(T(a))
  /\ \A p \in Pts : /\ InLo(a, p) <=> CO!InLo(T(a), p)
                    /\ InUp(a, p) <=> CO!InUp(T(a), p)
\* Interval.tla's composite operations are the lemma's shapes
InvSameShapes ==
  \A c \in Bounds, d \in Bounds :
    (LowBelowUp(a, c) /\ LowBelowUp(b, d)) =>
      LET x == Iv(a, c)  y == Iv(b, d) IN
      /\ Intersect1(x, y) = New(MaxLo(a, b), MinUp(c, d))
      /\ Sub1(y, x) <=> (CO!LowLe(T(a), T(b)) /\ CO!UpLe(T(d), T(c)))
      /\ Diff1(x, y) = (IF b.k = "unb" THEN <<>> ELSE New(a, MinUp(c, FlipToUp(b))))
                       \o (IF d.k = "unb" THEN <<>> ELSE New(MaxLo(a, FlipToLo(d)), c))
      /\ LET R == Diff1(x, y) IN
           {[lo |-> T(R[i].lo), up |-> T(R[i].up)] : i \in 1..Len(R)}
             = CO!Pieces([lo |-> T(a), up |-> T(c)], [lo |-> T(b), up |-> T(d)])
=============================================================================
