------------------------------- MODULE Interval -------------------------------
(***************************************************************************)
(* Intervals of versions ("bound sets"), ranges (lists of intervals),      *)
(* their meaning, and the design of the set operations.                    *)
(*                                                                         *)
(*  bound    [k |-> "unb"] | [k |-> "inc", v |-> version]                  *)
(*                         | [k |-> "exc", v |-> version]                  *)
(*  interval [lo |-> bound, up |-> bound]                                  *)
(*  range    sequence of intervals, in the implementation's order          *)
(*                                                                         *)
(* This is exactly what the hook Range::verif_bounds() exposes.            *)
(***************************************************************************)
EXTENDS Version, FiniteSets

Unb == [k |-> "unb"]
Inc(v) == [k |-> "inc", v |-> v]
Exc(v) == [k |-> "exc", v |-> v]
Iv(lo, up) == [lo |-> lo, up |-> up]
AnyIv == Iv(Unb, Unb)

\* ---- meaning: membership in the bounds, prerelease gate, satisfaction ----
InLo(lo, v) == lo.k = "unb" \/ (lo.k = "inc" /\ VLe(lo.v, v)) \/ (lo.k = "exc" /\ VLt(lo.v, v))
InUp(up, v) == up.k = "unb" \/ (up.k = "inc" /\ VLe(v, up.v)) \/ (up.k = "exc" /\ VLt(v, up.v))
InB(iv, v) == InLo(iv.lo, v) /\ InUp(iv.up, v)

\* a prerelease is admitted only through a bound that is itself a prerelease of the same tuple
TagOn(b, v) == b.k # "unb" /\ IsPre(b.v) /\ SameTuple(b.v, v)
Gate(iv, v) == ~IsPre(v) \/ TagOn(iv.lo, v) \/ TagOn(iv.up, v)
SatIv(iv, v) == InB(iv, v) /\ Gate(iv, v)

RInB(r, v) == \E i \in 1..Len(r) : InB(r[i], v)
RSat(r, v) == \E i \in 1..Len(r) : SatIv(r[i], v)

\* ---- endpoints and probe versions ----
BEnds(b) == IF b.k = "unb" THEN {} ELSE {NoBuild(b.v)}
IvEnds(iv) == BEnds(iv.lo) \cup BEnds(iv.up)
Ends(r) == UNION {IvEnds(r[i]) : i \in 1..Len(r)}

(* Probes(E): a finite set of versions such that any two unions of intervals
   with endpoints in E that agree on Probes(E) agree everywhere, both for
   bounds membership and for satisfaction.  Membership is constant on the
   points of E and on the open gaps between consecutive points; the least
   element of a gap is Succ of its lower end.  Satisfaction additionally
   distinguishes releases (RelSucc = least release of a gap) and, for each
   tuple t carrying a prerelease endpoint, the prereleases of t (least one
   in a gap: t-0 or Succ of an endpoint inside t's block). *)
Probes(E) ==
  {MinV, Rel(MinV)} \cup E \cup {Succ(e) : e \in E} \cup {RelSucc(e) : e \in E}
  \cup {Pre0(e) : e \in {x \in E : IsPre(x)}} \cup {Rel(e) : e \in {x \in E : IsPre(x)}}

\* ---- bounds as cuts ----
(* Lower(Including v) and Upper(Excluding v) are the cut just before v (side 0);
   Lower(Excluding v) and Upper(Including v) the cut just after v (side 1). *)
LSide(b) == IF b.k = "inc" THEN 0 ELSE 1
USide(b) == IF b.k = "inc" THEN 1 ELSE 0
CutCmp(v1, s1, v2, s2) ==
  LET c == VCmp(v1, v2) IN IF c # 0 THEN c ELSE IF s1 < s2 THEN -1 ELSE IF s1 > s2 THEN 1 ELSE 0

\* lower cut strictly below upper cut: the interval is non-empty as a cut interval
LowBelowUp(lo, up) == lo.k = "unb" \/ up.k = "unb" \/ CutCmp(lo.v, LSide(lo), up.v, USide(up)) = -1
LowCmp(a, b) == IF a.k = "unb" /\ b.k = "unb" THEN 0 ELSE IF a.k = "unb" THEN -1 ELSE IF b.k = "unb" THEN 1
                ELSE CutCmp(a.v, LSide(a), b.v, LSide(b))
UpCmp(a, b)  == IF a.k = "unb" /\ b.k = "unb" THEN 0 ELSE IF a.k = "unb" THEN 1 ELSE IF b.k = "unb" THEN -1
                ELSE CutCmp(a.v, USide(a), b.v, USide(b))
MaxLo(a, b) == IF LowCmp(a, b) = -1 THEN b ELSE a
MinUp(a, b) == IF UpCmp(a, b) = 1 THEN b ELSE a

ValidIv(iv) == LowBelowUp(iv.lo, iv.up)
\* New(lo, up): the design of BoundSet::new - a one-element or empty list
New(lo, up) == IF LowBelowUp(lo, up) THEN <<Iv(lo, up)>> ELSE <<>>
ValidRange(r) == Len(r) >= 1 /\ \A i \in 1..Len(r) : ValidIv(r[i])

\* least version inside the bounds of a valid interval, if any (immediate-successor gaps have none)
LeastInB(iv) == LET w == IF iv.lo.k = "unb" THEN MinV ELSE IF iv.lo.k = "inc" THEN NoBuild(iv.lo.v) ELSE Succ(iv.lo.v)
                IN IF InB(iv, w) THEN <<w>> ELSE <<>>
HasVersion(iv) == LeastInB(iv) # <<>>

\* ---- intersection ----
Intersect1(a, b) == New(MaxLo(a.lo, b.lo), MinUp(a.up, b.up))
RECURSIVE Concat(_, _)
Concat(f, n) == IF n = 0 THEN <<>> ELSE Concat(f, n - 1) \o f[n]
\* all pairs, left-major order (as the crate); F is the per-pair operation
PairsW(F(_, _), A, B) ==
  LET n == Len(A) * Len(B)
      f == [k \in 1..n |-> F(A[((k - 1) \div Len(B)) + 1], B[((k - 1) % Len(B)) + 1])]
  IN Concat(f, n)
Intersect(A, B) == PairsW(Intersect1, A, B)
Overlap1(a, b) == LowBelowUp(a.lo, b.up) /\ LowBelowUp(b.lo, a.up)
AllowsAny(A, B) == \E i \in 1..Len(A), j \in 1..Len(B) : Overlap1(A[i], B[j])
\* ... and the overlap really contains a version
AllowsAnyVersion(A, B) ==
  \E i \in 1..Len(A), j \in 1..Len(B) :
     LET x == Intersect1(A[i], B[j]) IN x # <<>> /\ HasVersion(x[1])

\* ---- difference ----
FlipToUp(lo) == IF lo.k = "inc" THEN Exc(lo.v) ELSE Inc(lo.v)   \* complement of a lower bound, as an upper bound
FlipToLo(up) == IF up.k = "inc" THEN Exc(up.v) ELSE Inc(up.v)
\* a minus b: what of a lies below b, then what of a lies above b
Diff1(a, b) ==
  (IF b.lo.k = "unb" THEN <<>> ELSE New(a.lo, MinUp(a.up, FlipToUp(b.lo))))
  \o (IF b.up.k = "unb" THEN <<>> ELSE New(MaxLo(a.lo, FlipToLo(b.up)), a.up))
RECURSIVE SubSeq1(_, _, _)
\* subtract b from every piece
SubSeq1(pieces, b, i) == IF i > Len(pieces) THEN <<>> ELSE Diff1(pieces[i], b) \o SubSeq1(pieces, b, i + 1)
RECURSIVE SubAll(_, _, _)
SubAll(pieces, B, j) == IF j > Len(B) THEN pieces ELSE SubAll(SubSeq1(pieces, B[j], 1), B, j + 1)
RECURSIVE DiffFrom(_, _, _)
DiffFrom(A, B, i) == IF i > Len(A) THEN <<>> ELSE SubAll(<<A[i]>>, B, 1) \o DiffFrom(A, B, i + 1)
Difference(A, B) == DiffFrom(A, B, 1)

\* ---- containment ----
Sub1(b, a) == LowCmp(a.lo, b.lo) # 1 /\ UpCmp(b.up, a.up) # 1      \* b within a, as cut intervals
AllowsAll(A, B) == \E i \in 1..Len(A), j \in 1..Len(B) : Sub1(B[j], A[i])   \* the crate's documented shape

\* ---- min_version ----
MinOfIv(iv) ==
  LET cands == IF iv.lo.k = "inc" THEN <<NoBuild(iv.lo.v)>>
               ELSE IF iv.lo.k = "exc"
                    THEN (IF IsPre(iv.lo.v) THEN <<Succ(iv.lo.v)>> ELSE <<Succ(iv.lo.v), Rel(Succ(iv.lo.v))>>)
               ELSE <<MinV, Rel(MinV)>>
      ok == {i \in 1..Len(cands) : SatIv(iv, cands[i])}
  IN IF ok = {} THEN <<>> ELSE <<cands[CHOOSE i \in ok : \A j \in ok : i <= j]>>
RECURSIVE MinOver(_, _, _)
MinOver(r, i, best) ==
  IF i > Len(r) THEN best
  ELSE LET m == MinOfIv(r[i]) IN
       MinOver(r, i + 1, IF m = <<>> THEN best ELSE IF best = <<>> THEN m ELSE IF VLt(m[1], best[1]) THEN m ELSE best)
MinVersion(r) == MinOver(r, 1, <<>>)     \* <<>> = None, <<m>> = Some(m)

\* ---- Display format of the crate (pinned by its parse tests) ----
Sp == <<32>>
PrintIv(iv) ==
  LET lo == iv.lo  up == iv.up IN
  IF lo.k = "unb" /\ up.k = "unb" THEN <<42>>
  ELSE IF lo.k = "unb" THEN (IF up.k = "inc" THEN <<60, 61>> ELSE <<60>>) \o PrintVersion(up.v)
  ELSE IF up.k = "unb" THEN (IF lo.k = "inc" THEN <<62, 61>> ELSE <<62>>) \o PrintVersion(lo.v)
  ELSE IF lo.k = "inc" /\ up.k = "inc" /\ VEq(lo.v, up.v) THEN PrintVersion(lo.v)
  ELSE (IF lo.k = "inc" THEN <<62, 61>> ELSE <<62>>) \o PrintVersion(lo.v) \o Sp
       \o (IF up.k = "inc" THEN <<60, 61>> ELSE <<60>>) \o PrintVersion(up.v)
RECURSIVE PrintRangeFrom(_, _)
PrintRangeFrom(r, i) == IF i > Len(r) THEN <<>>
                        ELSE (IF i > 1 THEN <<124, 124>> ELSE <<>>) \o PrintIv(r[i]) \o PrintRangeFrom(r, i + 1)
PrintRange(r) == PrintRangeFrom(r, 1)

(***************************************************************************)
(* Named deviations: literal transcriptions of the algorithms of the       *)
(* pinned tree (src/range.rs at ebc3fc1).  They are NOT the specification; *)
(* they are negative controls: TLC must reject them on the invariants the  *)
(* design above satisfies.                                                 *)
(***************************************************************************)
\* Ord for Bound; a bound here is tagged with its side: <<"L", b>> or <<"U", b>>
Impl_BoundCmp(s1, b1, s2, b2) ==
  IF (s1 = "L" /\ s2 = "L" /\ b1.k = "unb" /\ b2.k = "unb") \/ (s1 = "U" /\ s2 = "U" /\ b1.k = "unb" /\ b2.k = "unb") THEN 0
  ELSE IF (s1 = "U" /\ b1.k = "unb") \/ (s2 = "L" /\ b2.k = "unb") THEN 1
  ELSE IF (s1 = "L" /\ b1.k = "unb") \/ (s2 = "U" /\ b2.k = "unb") THEN -1
  ELSE LET v1 == b1.v  v2 == b2.v  k1 == <<s1, b1.k>>  k2 == <<s2, b2.k>> IN
    IF <<k1, k2>> \in { <<<<"U","inc">>, <<"U","inc">>>>, <<<<"U","inc">>, <<"L","inc">>>>,
                        <<<<"U","exc">>, <<"U","exc">>>>, <<<<"U","exc">>, <<"L","exc">>>>,
                        <<<<"L","inc">>, <<"U","inc">>>>, <<<<"L","inc">>, <<"L","inc">>>>,
                        <<<<"L","exc">>, <<"L","exc">>>> } THEN VCmp(v1, v2)
    ELSE IF <<k1, k2>> \in { <<<<"L","exc">>, <<"U","exc">>>>, <<<<"L","inc">>, <<"U","exc">>>> }
         THEN (IF VLe(v2, v1) THEN 1 ELSE -1)
    ELSE IF <<k1, k2>> \in { <<<<"U","inc">>, <<"U","exc">>>>, <<<<"U","inc">>, <<"L","exc">>>>,
                             <<<<"L","exc">>, <<"U","inc">>>> }
         THEN (IF VLt(v2, v1) THEN 1 ELSE -1)
    ELSE IF <<k1, k2>> = <<<<"L","exc">>, <<"L","inc">>>>
         THEN (IF VLt(v1, v2) THEN -1 ELSE 1)
    ELSE (IF VLe(v1, v2) THEN -1 ELSE 1)
Impl_New(lo, up) ==
  IF lo.k # "unb" /\ up.k # "unb" /\ VEq(lo.v, up.v) /\ <<lo.k, up.k>> \in {<<"exc","inc">>, <<"inc","exc">>} THEN <<>>
  ELSE IF lo.k = "inc" /\ up.k = "inc" /\ VEq(lo.v, up.v) THEN <<Iv(lo, up)>>
  ELSE IF Impl_BoundCmp("L", lo, "U", up) = -1 THEN <<Iv(lo, up)>> ELSE <<>>
Impl_Intersect1(a, b) ==
  LET lo == IF Impl_BoundCmp("L", a.lo, "L", b.lo) = 1 THEN a.lo ELSE b.lo   \* std::cmp::max(a, b) = if a > b {a} else {b}
      up == IF Impl_BoundCmp("U", a.up, "U", b.up) = 1 THEN b.up ELSE a.up   \* std::cmp::min(a, b) = if a > b {b} else {a}
  IN Impl_New(lo, up)
Impl_AllowsAny1(a, b) == ~(Impl_BoundCmp("U", b.up, "L", a.lo) = -1) /\ ~(Impl_BoundCmp("U", a.up, "L", b.lo) = -1)
Impl_AllowsAll1(a, b) == Impl_BoundCmp("L", a.lo, "L", b.lo) # 1 /\ Impl_BoundCmp("U", b.up, "U", a.up) # 1
\* Range::difference of the pinned tree: every per-pair remainder is appended
Impl_Difference(A, B) == PairsW(Diff1, A, B)
Impl_Intersect(A, B) == PairsW(Impl_Intersect1, A, B)
Impl_AllowsAny(A, B) == \E i \in 1..Len(A), j \in 1..Len(B) : Impl_AllowsAny1(A[i], B[j])
Impl_AllowsAll(A, B) == \E i \in 1..Len(A), j \in 1..Len(B) : Impl_AllowsAll1(A[i], B[j])
\* Range::min_version of the pinned tree: least lower bound, then patch + 1
Impl_MinVersion(r) ==
  LET los == {i \in 1..Len(r) : \A j \in 1..Len(r) : Impl_BoundCmp("L", r[i].lo, "L", r[j].lo) # 1}
      i0 == CHOOSE i \in los : \A j \in los : i <= j
      lo == r[i0].lo
  IN IF lo.k = "inc" THEN <<NoBuild(lo.v)>>
     ELSE IF lo.k = "exc" THEN (IF IsPre(lo.v) THEN <<Succ(lo.v)>> ELSE <<Rel(Succ(lo.v))>>)
     ELSE IF RSat(r, Rel(MinV)) THEN <<Rel(MinV)>> ELSE IF RSat(r, MinV) THEN <<MinV>> ELSE <<>>
=============================================================================
