SPECIFICATION Spec
CONSTANTS
  Universe = "small"
  Alts = 1
  UseImpl = TRUE
  Emit = FALSE
INVARIANTS InvIntersect InvIntersectCommutes InvIntersectIdempotent InvDifference InvAllowsAny InvAllowsAll InvMinVersion InvProbesComplete
CHECK_DEADLOCK FALSE
