------------------------------- MODULE Version -------------------------------
(***************************************************************************)
(* Versions, identifiers, SemVer 2.0.0 section 11 precedence, immediate    *)
(* successor, printing, node-semver's diff, tuple conversions.             *)
(***************************************************************************)
EXTENDS Digits

\* An identifier is numeric  [k |-> "n", d |-> canonical digits]
\*              or textual  [k |-> "a", s |-> bytes]  (bytes over [0-9A-Za-z-])
NumId(d) == [k |-> "n", d |-> d]
TxtId(s) == [k |-> "a", s |-> s]
N0 == NumId(Zero)

\* A version: three canonical numbers, prerelease and build identifier lists
Ver(M, m, p, pre, bld) == [M |-> M, m |-> m, p |-> p, pre |-> pre, bld |-> bld]
V4(M, m, p, pre) == Ver(M, m, p, pre, <<>>)
V3(M, m, p) == Ver(M, m, p, <<>>, <<>>)

IsPre(v) == v.pre # <<>>
Rel(v) == [v EXCEPT !.pre = <<>>, !.bld = <<>>]
NoBuild(v) == [v EXCEPT !.bld = <<>>]
SameTuple(a, b) == a.M = b.M /\ a.m = b.m /\ a.p = b.p

\* ---- precedence (SemVer 2.0.0 section 11) ----
IdCmp(x, y) ==
  IF x.k = "n" /\ y.k = "n" THEN NumCmp(x.d, y.d)
  ELSE IF x.k = "n" THEN -1
  ELSE IF y.k = "n" THEN 1
  ELSE SeqCmp(x.s, y.s)

RECURSIVE PreCmp(_, _, _)
PreCmp(p, q, i) ==
  IF i > Len(p) /\ i > Len(q) THEN 0
  ELSE IF i > Len(p) THEN -1
  ELSE IF i > Len(q) THEN 1
  ELSE LET c == IdCmp(p[i], q[i]) IN IF c # 0 THEN c ELSE PreCmp(p, q, i + 1)

VCmp(a, b) ==
  LET c1 == NumCmp(a.M, b.M) IN IF c1 # 0 THEN c1 ELSE
  LET c2 == NumCmp(a.m, b.m) IN IF c2 # 0 THEN c2 ELSE
  LET c3 == NumCmp(a.p, b.p) IN IF c3 # 0 THEN c3 ELSE
  IF a.pre = <<>> /\ b.pre = <<>> THEN 0
  ELSE IF a.pre = <<>> THEN 1
  ELSE IF b.pre = <<>> THEN -1
  ELSE PreCmp(a.pre, b.pre, 1)

VLt(a, b) == VCmp(a, b) = -1
VLe(a, b) == VCmp(a, b) # 1
VEq(a, b) == VCmp(a, b) = 0
\* the key on which ==, Ord and Hash must agree: everything but build
Key(v) == <<v.M, v.m, v.p, v.pre>>

\* least version of all
MinV == V4(Zero, Zero, Zero, <<N0>>)

\* immediate successor in precedence: nothing lies strictly between v and Succ(v)
Succ(v) == IF v.pre = <<>> THEN V4(v.M, v.m, NumSucc(v.p), <<N0>>)
           ELSE Ver(v.M, v.m, v.p, Append(v.pre, N0), <<>>)
\* least release strictly above v
RelSucc(v) == IF v.pre = <<>> THEN V3(v.M, v.m, NumSucc(v.p)) ELSE V3(v.M, v.m, v.p)
\* least prerelease of a tuple
Pre0(v) == V4(v.M, v.m, v.p, <<N0>>)

\* ---- printing (Display) ----
IdBytes(x) == IF x.k = "n" THEN DigitsToBytes(x.d) ELSE x.s
RECURSIVE JoinIds(_, _)
JoinIds(ids, i) == IF i > Len(ids) THEN <<>>
                   ELSE (IF i > 1 THEN <<46>> ELSE <<>>) \o IdBytes(ids[i]) \o JoinIds(ids, i + 1)
PrintVersion(v) ==
  DigitsToBytes(v.M) \o <<46>> \o DigitsToBytes(v.m) \o <<46>> \o DigitsToBytes(v.p)
  \o (IF v.pre = <<>> THEN <<>> ELSE <<45>> \o JoinIds(v.pre, 1))
  \o (IF v.bld = <<>> THEN <<>> ELSE <<43>> \o JoinIds(v.bld, 1))

\* ---- node-semver 7.x functions/diff.js ----
Diff(a, b) ==
  LET c == VCmp(a, b) IN
  IF c = 0 THEN "none" ELSE
  LET hi == IF c = 1 THEN a ELSE b
      lo == IF c = 1 THEN b ELSE a
      hiPre == IsPre(hi)
      loPre == IsPre(lo)
  IN IF loPre /\ ~hiPre THEN
          (IF IsZero(lo.p) /\ IsZero(lo.m) THEN "major"
           ELSE IF ~IsZero(hi.p) THEN "patch"
           ELSE IF ~IsZero(hi.m) THEN "minor"
           ELSE "major")
     ELSE LET prefix == IF hiPre THEN "pre" ELSE "" IN
          IF a.M # b.M THEN prefix \o "major"
          ELSE IF a.m # b.m THEN prefix \o "minor"
          ELSE IF a.p # b.p THEN prefix \o "patch"
          ELSE "prerelease"

\* ---- tuple conversions ----
FromTuple3(a, b, c) == V3(a, b, c)
FromTuple4(a, b, c, d) == V4(a, b, c, <<NumId(d)>>)

\* well-formedness of a version value as the crate can hold it
IdentByte(c) == (c >= 48 /\ c <= 57) \/ (c >= 65 /\ c <= 90) \/ (c >= 97 /\ c <= 122) \/ c = 45
WfId(x) == IF x.k = "n" THEN IsCanon(x.d) /\ IsDigits(x.d) /\ FitsU64(x.d)
           ELSE Len(x.s) >= 1 /\ \A i \in 1..Len(x.s) : IdentByte(x.s[i])
=============================================================================
