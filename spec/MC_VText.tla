------------------------------ MODULE MC_VText ------------------------------
(***************************************************************************)
(* Bounded instance of the version-text machine: every string over a set   *)
(* of symbols (each a short UTF-8 byte sequence) is a behaviour; the       *)
(* machine may read MaxLive symbols while alive and MaxExtra more after    *)
(* its first failure, so "accepted as a shorter version" is reached with   *)
(* every continuation.  Each string is printed as a CASE line and executed *)
(* against Version::parse.                                                 *)
(***************************************************************************)
EXTENDS VersionText, TLC, Json

CONSTANTS SymbolSet,  \* "a" | "b"
          MaxLive, MaxExtra, Emit

SymsA == { <<48>>, <<49>>, <<46>>, <<45>>, <<43>>, <<118>>, <<97>>, <<32>>, <<95>>, <<195, 169>> }
          \* 0 1 . - + v a space _ e-acute
SymsB == { <<57>>, <<49>>, <<46>>, <<45>>, <<43>>, <<86>>, <<9>>, <<10>>, <<65>>, <<197, 129>>, <<120>> }
          \* 9 1 . - + V tab newline A L-stroke x
Syms == IF SymbolSet = "a" THEN SymsA ELSE SymsB

VARIABLES str, st, live, extra
vars == <<str, st, live, extra>>

Feed(s, sym) == VRunFrom(s, sym, 1)

Init == str = <<>> /\ st = VS0 /\ live = 0 /\ extra = 0
Next == \E sym \in Syms :
          /\ IF st.ph # "dead" THEN live < MaxLive /\ live' = live + 1 /\ extra' = 0
             ELSE extra < MaxExtra /\ extra' = extra + 1 /\ live' = live
          /\ str' = str \o sym
          /\ st' = Feed(st, sym)
          /\ (Emit => PrintT(<<"CASE", ToJson([op |-> "vparse", text |-> str'])>>))
Spec == Init /\ [][Next]_vars

\* the incremental machine is the fold over the whole string
InvFold == st = VRun(str)
\* the first failure is absorbing and its record never changes
InvDeadAbsorbing == st.ph = "dead" => (VStep(st, 48).ph = "dead" /\ VStep(st, 48).foff = st.foff /\ VStep(st, 48).fkind = st.fkind)
\* C12 at design level: whatever is accepted prints to a canonical (MUST-accept) string denoting the same fields,
\* and printing is a fixed point
InvRoundTrip ==
  LET f == VFinish(st) IN
  f.ok => LET pr == PrintVersion(f.val)
              g == VFinish(VRun(pr))
          IN g.ok /\ g.must /\ g.val = f.val /\ PrintVersion(g.val) = pr
\* a failure offset never lies beyond the input, and is a character boundary of it
InvFailureOffset ==
  LET f == VFinish(st) IN ~f.ok => (f.foff >= 0 /\ f.foff <= Len(str) /\ IsBoundary(str, f.foff))
=============================================================================
