//! Executes cases (API programs) against the real crate and records one event per call.
//! There is no oracle here: nothing in this file decides whether a result is right.

use crate::enc::*;
use miette::Diagnostic;
use nodejs_semver::{Identifier, Range, SemverError, SemverErrorKind, VerifSide, Version};
use serde_json::{json, Map, Value};
use std::cell::RefCell;
use std::collections::hash_map::DefaultHasher;
use std::hash::{Hash, Hasher};
use std::io::Write;
use std::panic::{catch_unwind, AssertUnwindSafe};
use std::time::Instant;

pub const NREG: usize = 9;

thread_local! {
    static LAST_PANIC: RefCell<String> = RefCell::new(String::new());
}

pub fn install_panic_hook() {
    std::panic::set_hook(Box::new(|info| {
        let msg = info.to_string();
        LAST_PANIC.with(|p| *p.borrow_mut() = msg);
    }));
}

// ---------------------------------------------------------------- version helpers (probe rule)
fn nobuild(v: &Version) -> Version {
    Version { build: vec![], ..v.clone() }
}
fn rel(v: &Version) -> Version {
    Version { build: vec![], pre_release: vec![], ..v.clone() }
}
fn pre0(v: &Version) -> Version {
    Version { build: vec![], pre_release: vec![Identifier::Numeric(0)], ..v.clone() }
}
fn succ(v: &Version) -> Option<Version> {
    let mut w = nobuild(v);
    if w.pre_release.is_empty() {
        w.patch = w.patch.checked_add(1)?;
        w.pre_release.push(Identifier::Numeric(0));
    } else {
        w.pre_release.push(Identifier::Numeric(0));
    }
    Some(w)
}
fn relsucc(v: &Version) -> Option<Version> {
    let mut w = rel(v);
    if v.pre_release.is_empty() {
        w.patch = w.patch.checked_add(1)?;
    }
    Some(w)
}
fn same5(a: &Version, b: &Version) -> bool {
    a.major == b.major
        && a.minor == b.minor
        && a.patch == b.patch
        && a.pre_release == b.pre_release
        && a.build == b.build
}
fn push_unique(out: &mut Vec<Version>, v: Version) {
    if !out.iter().any(|w| same5(w, &v)) {
        out.push(v);
    }
}

pub type Bounds = Vec<(VerifSide, VerifSide)>;

fn endpoints(structs: &[&Bounds]) -> Vec<Version> {
    let mut e = Vec::new();
    for s in structs {
        for (lo, up) in s.iter() {
            for side in [lo, up] {
                if let Some((_, v)) = side {
                    push_unique(&mut e, nobuild(v));
                }
            }
        }
    }
    e
}

/// Same rule as `Probes` in spec/Interval.tla, plus neighbouring tuples of tagged endpoints.
pub fn probes(structs: &[&Bounds], cap: usize) -> Vec<Version> {
    let e = endpoints(structs);
    let mut p = Vec::new();
    push_unique(&mut p, Version::from((0u64, 0u64, 0u64, 0u64)));
    push_unique(&mut p, Version::from((0u64, 0u64, 0u64)));
    for v in &e {
        push_unique(&mut p, v.clone());
    }
    for v in &e {
        if let Some(s) = succ(v) {
            push_unique(&mut p, s);
        }
        if let Some(s) = relsucc(v) {
            push_unique(&mut p, s);
        }
        if !v.pre_release.is_empty() {
            push_unique(&mut p, pre0(v));
            push_unique(&mut p, rel(v));
        }
    }
    // neighbours: same tag on an adjacent tuple, and a foreign tag on the same tuple
    for v in &e {
        if p.len() >= cap {
            break;
        }
        if !v.pre_release.is_empty() {
            let mut a = v.clone();
            a.patch = a.patch.saturating_add(1);
            push_unique(&mut p, a);
            let mut b = v.clone();
            b.minor = b.minor.saturating_add(1);
            push_unique(&mut p, b);
            let mut c = v.clone();
            c.major = c.major.saturating_add(1);
            push_unique(&mut p, c);
        } else {
            let mut a = v.clone();
            a.pre_release = vec![Identifier::AlphaNumeric("a".into())];
            push_unique(&mut p, a);
        }
    }
    p.truncate(cap.max(8));
    p
}

// ---------------------------------------------------------------- execution context
pub struct Ctx<W: Write> {
    pub out: W,
    pub cid: u64,
    pub regs: Vec<Option<Range>>,
    pub events: u64,
    pub panics: u64,
    pub probe_cap: usize,
    pub rpool: std::collections::VecDeque<Range>,
    pub vpool: std::collections::VecDeque<Version>,
}

fn hash_of<T: Hash + ?Sized>(v: &T) -> u64 {
    let mut h = DefaultHasher::new();
    v.hash(&mut h);
    h.finish()
}

fn ord_int(o: std::cmp::Ordering) -> i64 {
    match o {
        std::cmp::Ordering::Less => -1,
        std::cmp::Ordering::Equal => 0,
        std::cmp::Ordering::Greater => 1,
    }
}

fn kind_json(k: &SemverErrorKind) -> (String, Value) {
    match k {
        SemverErrorKind::MaxLengthError => ("MaxLengthError".into(), json!([])),
        SemverErrorKind::IncompleteInput => ("IncompleteInput".into(), json!([])),
        SemverErrorKind::ParseIntError(_) => ("ParseIntError".into(), json!([])),
        SemverErrorKind::MaxIntError(n) => ("MaxIntError".into(), digits(*n)),
        SemverErrorKind::Context(c) => ("Context".into(), bytes(c)),
        SemverErrorKind::NoValidRanges => ("NoValidRanges".into(), json!([])),
        SemverErrorKind::Other => ("Other".into(), json!([])),
        // a kind added by a later version of the crate: free, like the generic syntax kinds
        #[allow(unreachable_patterns)]
        _ => ("Other".into(), json!([])),
    }
}

/// Everything observable about an error; each accessor is called under catch_unwind.
pub fn err_json(e: &SemverError) -> Value {
    let mut m = Map::new();
    m.insert("input".into(), bytes(e.input()));
    m.insert("off".into(), json!(e.offset() as u64));
    m.insert("slen".into(), json!(e.span().len() as u64));
    m.insert("soff".into(), json!(e.span().offset() as u64));
    let (kn, kv) = kind_json(e.kind());
    m.insert("kind".into(), json!(kn));
    m.insert("kval".into(), kv);
    match catch_unwind(AssertUnwindSafe(|| e.location())) {
        Ok((l, c)) => {
            m.insert("loc".into(), json!({"out":"ok","line":l as u64,"col":c as u64}));
        }
        Err(_) => {
            m.insert("loc".into(), json!({"out":"panic"}));
        }
    }
    let diag = catch_unwind(AssertUnwindSafe(|| {
        let code = e.code().map(|c| c.to_string()).unwrap_or_default();
        let help = e.help().map(|c| c.to_string()).unwrap_or_default();
        let url = e.url().map(|c| c.to_string()).unwrap_or_default();
        let _sev = e.severity();
        let labels: Vec<(usize, usize)> = e
            .labels()
            .map(|it| it.map(|l| (l.offset(), l.len())).collect())
            .unwrap_or_default();
        let has_src = e.source_code().is_some();
        let disp = e.to_string();
        let dbg = format!("{:?}", e);
        let src = std::error::Error::source(e).map(|s| s.to_string());
        let mut rendered = String::new();
        let rep = miette::NarratableReportHandler::new().render_report(&mut rendered, e);
        let report = format!("{:?}", miette::Report::new(e.clone()));
        json!({
            "out":"ok",
            "code": bytes(&code), "help_len": help.len() as u64, "url_len": url.len() as u64,
            "labels": labels.iter().map(|(o,l)| json!({"off":*o as u64,"len":*l as u64})).collect::<Vec<_>>(),
            "has_src": has_src, "disp_len": disp.len() as u64, "dbg_len": dbg.len() as u64,
            "has_source": src.is_some(),
            "render_ok": rep.is_ok(), "render_len": rendered.len() as u64, "report_len": report.len() as u64,
        })
    }));
    match diag {
        Ok(d) => {
            m.insert("diag".into(), d);
        }
        Err(_) => {
            m.insert("diag".into(), json!({"out":"panic"}));
        }
    }
    Value::Object(m)
}

/// JSON routes other than to_string/from_str: through serde_json::Value, through a reader, and from JSON text
/// that spells a character with an escape.  Each must give back the same value.
fn version_json_routes(v: &Version) -> Value {
    let mut out = Vec::new();
    let r1: Result<Version, _> = serde_json::to_value(v).and_then(serde_json::from_value);
    let js = serde_json::to_string(v).unwrap_or_default();
    let r2: Result<Version, _> = serde_json::from_reader(js.as_bytes());
    let esc = js.replacen('.', "\\u002e", 1);
    let r3: Result<Version, _> = serde_json::from_str(&esc);
    for r in [r1, r2, r3] {
        out.push(match r {
            Ok(x) => json!({"out":"ok","val":ver_to_json(&x)}),
            Err(_) => json!({"out":"err","val":[]}),
        });
    }
    Value::Array(out)
}
fn range_json_routes(v: &Range) -> Value {
    let mut out = Vec::new();
    let r1: Result<Range, _> = serde_json::to_value(v).and_then(serde_json::from_value);
    let js = serde_json::to_string(v).unwrap_or_default();
    let r2: Result<Range, _> = serde_json::from_reader(js.as_bytes());
    let esc = js.replacen('.', "\\u002e", 1);
    let r3: Result<Range, _> = serde_json::from_str(&esc);
    for r in [r1, r2, r3] {
        out.push(match r {
            Ok(x) => json!({"out":"ok","val":range_to_json(&x)}),
            Err(_) => json!({"out":"err","val":[]}),
        });
    }
    Value::Array(out)
}

fn vres_json(r: &Result<Version, SemverError>) -> Value {
    match r {
        Ok(v) => json!({"out":"ok","val":ver_to_json(v)}),
        Err(e) => json!({"out":"err","err":err_json(e)}),
    }
}

impl<W: Write> Ctx<W> {
    pub fn new(out: W) -> Self {
        Ctx { out, cid: 0, regs: vec![None; NREG + 1], events: 0, panics: 0, probe_cap: 48, rpool: Default::default(), vpool: Default::default() }
    }

    pub fn emit(&mut self, mut ev: Value) {
        ev.as_object_mut().unwrap().insert("cid".into(), json!(self.cid));
        serde_json::to_writer(&mut self.out, &ev).unwrap();
        self.out.write_all(b"\n").unwrap();
        self.events += 1;
    }

    /// Run one API call; a panic becomes a `panic` event (data, not a harness failure).
    fn call<T>(&mut self, name: &str, f: impl FnOnce() -> T) -> Option<T> {
        match catch_unwind(AssertUnwindSafe(f)) {
            Ok(v) => Some(v),
            Err(_) => {
                let msg = LAST_PANIC.with(|p| p.borrow().clone());
                let short: String = msg.chars().take(200).collect();
                self.panics += 1;
                self.emit(json!({"ev":"panic","call":name,"msg":short}));
                None
            }
        }
    }

    fn reg(&self, i: usize) -> Option<Range> {
        self.regs.get(i).cloned().flatten()
    }

    fn skip(&mut self, what: &str) {
        self.emit(json!({"ev":"skip","what":what}));
    }

    fn obs_sat(&mut self, name: &str, rs: &[(&str, &Range)], ps: &[Version]) -> Option<Vec<Value>> {
        let rs2: Vec<(String, Range)> = rs.iter().map(|(k, r)| (k.to_string(), (*r).clone())).collect();
        let ps2 = ps.to_vec();
        self.call(name, move || {
            ps2.iter()
                .map(|v| {
                    let mut m = Map::new();
                    m.insert("v".into(), ver_to_json(v));
                    for (k, r) in &rs2 {
                        m.insert(k.clone(), json!(r.satisfies(v)));
                    }
                    Value::Object(m)
                })
                .collect::<Vec<_>>()
        })
    }

    // ------------------------------------------------------------ range steps
    pub fn step(&mut self, st: &Value) {
        let c = st.get("c").and_then(|x| x.as_str()).unwrap_or("");
        let gi = |k: &str| st.get(k).and_then(|x| x.as_u64()).unwrap_or(0) as usize;
        match c {
            "rload" => {
                let dst = gi("dst");
                let want = st.get("val").cloned().unwrap_or(json!([]));
                let b = bounds_from_json(&want);
                let r = match b {
                    Some(b) => self.call("verif_from_bounds", || Range::verif_from_bounds(&b)).flatten(),
                    None => None,
                };
                match &r {
                    Some(r) => self.emit(json!({"ev":"rload","dst":dst,"ok":true,"val":range_to_json(r),"want":want})),
                    None => self.emit(json!({"ev":"rload","dst":dst,"ok":false,"val":[],"want":want})),
                }
                self.regs[dst] = r;
                // The hook builds intervals through the crate's own constructor.  If that rejects a two-sided
                // interval, establish the operand through the public API instead: the intersection of its two
                // one-sided halves (an ordinary `intersect` call, judged like any other).
                if self.regs[dst].is_none() {
                    if let Some(b) = bounds_from_json(&want) {
                        if b.len() == 1 && b[0].0.is_some() && b[0].1.is_some() {
                            let lo = vec![(b[0].0.clone(), None)];
                            let up = vec![(None, b[0].1.clone())];
                            let halves = self.call("verif_from_bounds", || (Range::verif_from_bounds(&lo), Range::verif_from_bounds(&up)));
                            if let Some((Some(l), Some(u))) = halves {
                                self.emit(json!({"ev":"rload","dst":NREG - 1,"ok":true,"val":range_to_json(&l),"want":bounds_to_json(&lo)}));
                                self.emit(json!({"ev":"rload","dst":NREG,"ok":true,"val":range_to_json(&u),"want":bounds_to_json(&up)}));
                                self.regs[NREG - 1] = Some(l);
                                self.regs[NREG] = Some(u);
                                self.step(&json!({"c":"isect","dst":dst,"a":NREG - 1,"b":NREG}));
                            }
                        }
                    }
                }
            }
            "rparse" => {
                let dst = gi("dst");
                let text = st.get("text").and_then(unbytes).unwrap_or_default();
                self.rparse(dst, &text, st.get("ast").cloned(), st.get("vs"));
            }
            "isect" | "diff" => {
                let (dst, a, b) = (gi("dst"), gi("a"), gi("b"));
                let nilok = st.get("nilok").and_then(|x| x.as_bool()).unwrap_or(false);
                let (ra, rb) = match (self.reg(a), self.reg(b)) {
                    (Some(x), Some(y)) => (x, y),
                    // a client treats None as the empty set: X - {} = X, X & {} = {} & X = {} - X = {}
                    (Some(x), None) if nilok && c == "diff" => {
                        self.emit(json!({"ev":"copy","dst":dst,"a":a}));
                        self.regs[dst] = Some(x);
                        return;
                    }
                    _ if nilok => {
                        self.emit(json!({"ev":"setnil","dst":dst}));
                        self.regs[dst] = None;
                        return;
                    }
                    _ => return self.skip(c),
                };
                // the same register twice is passed as the same reference (`x.intersect(&x)`), as a caller would
                let res = if c == "isect" {
                    self.call("intersect", || if a == b { ra.intersect(&ra) } else { ra.intersect(&rb) })
                } else {
                    self.call("difference", || if a == b { ra.difference(&ra) } else { ra.difference(&rb) })
                };
                let res = match res {
                    Some(r) => r,
                    None => {
                        self.regs[dst] = None;
                        return;
                    }
                };
                let (sa, sb) = (ra.verif_bounds(), rb.verif_bounds());
                // difference: also record A.intersect(B) (the partition clause of C08)
                let inter = if c == "diff" {
                    match self.call("intersect", || ra.intersect(&rb)) {
                        Some(i) => i,
                        None => {
                            self.regs[dst] = None;
                            return;
                        }
                    }
                } else {
                    None
                };
                let isome = inter.is_some();
                let ival = inter.as_ref().map(range_to_json).unwrap_or(json!([]));
                match &res {
                    Some(r) => {
                        let sr = r.verif_bounds();
                        let ps = probes(&[&sa, &sb, &sr], self.probe_cap);
                        let obs = self.obs_sat("satisfies", &[("a", &ra), ("b", &rb), ("r", r)], &ps);
                        if let Some(obs) = obs {
                            self.emit(json!({"ev":c,"dst":dst,"a":a,"b":b,"some":true,"val":bounds_to_json(&sr),"obs":obs,"isome":isome,"ival":ival}));
                        }
                    }
                    None => {
                        let ps = probes(&[&sa, &sb], self.probe_cap);
                        let obs = self.obs_sat("satisfies", &[("a", &ra), ("b", &rb)], &ps);
                        if let Some(obs) = obs {
                            self.emit(json!({"ev":c,"dst":dst,"a":a,"b":b,"some":false,"val":[],"obs":obs,"isome":isome,"ival":ival}));
                        }
                    }
                }
                self.regs[dst] = res;
            }
            "any" => {
                let (a, b) = (gi("a"), gi("b"));
                let (ra, rb) = match (self.reg(a), self.reg(b)) {
                    (Some(x), Some(y)) => (x, y),
                    _ => return self.skip(c),
                };
                let r = self.call("allows_any", || if a == b { (ra.allows_any(&ra), ra.allows_any(&ra)) } else { (ra.allows_any(&rb), rb.allows_any(&ra)) });
                let i = self.call("intersect", || ra.intersect(&rb).is_some());
                if let (Some((res, rev)), Some(isome)) = (r, i) {
                    self.emit(json!({"ev":"any","a":a,"b":b,"res":res,"rev":rev,"isome":isome}));
                }
            }
            "all" => {
                let (a, b) = (gi("a"), gi("b"));
                let (ra, rb) = match (self.reg(a), self.reg(b)) {
                    (Some(x), Some(y)) => (x, y),
                    _ => return self.skip(c),
                };
                let r = self.call("allows_all", || if a == b { ra.allows_all(&ra) } else { ra.allows_all(&rb) });
                let y = self.call("allows_any", || ra.allows_any(&rb));
                let d = self.call("difference", || rb.difference(&ra).is_none());
                if let (Some(res), Some(any), Some(dnone)) = (r, y, d) {
                    self.emit(json!({"ev":"all","a":a,"b":b,"res":res,"any":any,"dnone":dnone}));
                }
            }
            "minv" => {
                let a = gi("a");
                let ra = match self.reg(a) {
                    Some(x) => x,
                    None => return self.skip(c),
                };
                let r = self.call("min_version", || {
                    let m = ra.min_version();
                    let sat = m.as_ref().map(|v| ra.satisfies(v)).unwrap_or(false);
                    (m, sat)
                });
                if let Some((m, sat)) = r {
                    match m {
                        Some(v) => self.emit(json!({"ev":"minv","a":a,"some":true,"val":ver_to_json(&v),"sat":sat})),
                        None => self.emit(json!({"ev":"minv","a":a,"some":false,"val":[],"sat":false})),
                    }
                }
            }
            "sat" => {
                // observe satisfies (both spellings) on explicit versions or on the probe set of the register
                let a = gi("a");
                let ra = match self.reg(a) {
                    Some(x) => x,
                    None => return self.skip(c),
                };
                let sa = ra.verif_bounds();
                let mut ps: Vec<Version> = match st.get("vs").and_then(|x| x.as_array()) {
                    Some(l) => l.iter().filter_map(ver_from_json).collect(),
                    None => vec![],
                };
                if st.get("auto").and_then(|x| x.as_bool()).unwrap_or(ps.is_empty()) {
                    for v in probes(&[&sa], self.probe_cap) {
                        push_unique(&mut ps, v);
                    }
                }
                // build metadata never changes the answer: add suffixed copies of some probes
                let n0 = ps.len();
                for k in 0..n0.min(8) {
                    let mut w = ps[(k * 3) % n0].clone();
                    w.build = vec![Identifier::AlphaNumeric("b".into()), Identifier::Numeric(k as u64)];
                    push_unique(&mut ps, w);
                }
                let r2 = ra.clone();
                let obs = self.call("satisfies", move || {
                    ps.iter()
                        .map(|v| json!({"v":ver_to_json(v),"r":r2.satisfies(v),"vr":v.satisfies(&r2)}))
                        .collect::<Vec<_>>()
                });
                if let Some(obs) = obs {
                    self.emit(json!({"ev":"sat","a":a,"obs":obs}));
                }
            }
            "print" => {
                // print, re-parse, compare, print again, serde round trip
                let (dst, a) = (gi("dst"), gi("a"));
                let ra = match self.reg(a) {
                    Some(x) => x,
                    None => return self.skip(c),
                };
                let text = match self.call("to_string", || ra.to_string()) {
                    Some(t) => t,
                    None => return,
                };
                let dbg_ok = self.call("debug", || format!("{:?}", ra).len()).is_some();
                let back = self.call("parse", || Range::parse(&text));
                let back = match back {
                    Some(b) => b,
                    None => return,
                };
                let sa = ra.verif_bounds();
                let mut ev = Map::new();
                ev.insert("ev".into(), json!("print"));
                ev.insert("dst".into(), json!(dst));
                ev.insert("a".into(), json!(a));
                ev.insert("text".into(), bytes(&text));
                ev.insert("dbg".into(), json!(dbg_ok));
                match &back {
                    Ok(r2) => {
                        let s2 = r2.verif_bounds();
                        let ps = probes(&[&sa, &s2], self.probe_cap);
                        let obs = match self.obs_sat("satisfies", &[("a", &ra), ("r", r2)], &ps) {
                            Some(o) => o,
                            None => return,
                        };
                        let r2c = r2.clone();
                        let rac = ra.clone();
                        let more = self.call("reprint", move || {
                            let t2 = r2c.to_string();
                            let eq = r2c == rac;
                            let js = serde_json::to_string(&rac).unwrap_or_default();
                            let jb: Result<Range, _> = serde_json::from_str(&js);
                            let (jok, jval, jeq) = match jb {
                                Ok(r3) => (true, range_to_json(&r3), r3 == rac),
                                Err(_) => (false, json!([]), false),
                            };
                            (t2, eq, js, jok, jval, jeq, range_json_routes(&rac))
                        });
                        let (t2, eq, js, jok, jval, jeq, routes) = match more {
                            Some(x) => x,
                            None => return,
                        };
                        ev.insert("jroutes".into(), routes);
                        ev.insert("out".into(), json!("ok"));
                        ev.insert("val".into(), bounds_to_json(&s2));
                        ev.insert("obs".into(), Value::Array(obs));
                        ev.insert("eq".into(), json!(eq));
                        ev.insert("text2".into(), bytes(&t2));
                        ev.insert("json".into(), bytes(&js));
                        ev.insert("jok".into(), json!(jok));
                        ev.insert("jval".into(), jval);
                        ev.insert("jeq".into(), json!(jeq));
                        self.regs[dst] = Some(r2.clone());
                    }
                    Err(e) => {
                        ev.insert("out".into(), json!("err"));
                        ev.insert("err".into(), err_json(e));
                        self.regs[dst] = None;
                    }
                }
                self.emit(Value::Object(ev));
            }
            "maxsat" => {
                let a = gi("a");
                let ra = match self.reg(a) {
                    Some(x) => x,
                    None => return self.skip(c),
                };
                let list: Vec<Version> = st
                    .get("list")
                    .and_then(|x| x.as_array())
                    .map(|l| l.iter().filter_map(ver_from_json).collect())
                    .unwrap_or_default();
                let l2 = list.clone();
                let r = self.call("max_satisfying", move || {
                    let idx = |o: Option<&Version>| -> u64 {
                        match o {
                            None => 0,
                            Some(p) => l2
                                .iter()
                                .position(|q| std::ptr::eq(p, q))
                                .map(|i| i as u64 + 1)
                                .unwrap_or(u32::MAX as u64),
                        }
                    };
                    let mx = idx(ra.max_satisfying(&l2));
                    let mn = idx(ra.min_satisfying(&l2));
                    let sat: Vec<bool> = l2.iter().map(|v| ra.satisfies(v)).collect();
                    (mx, mn, sat)
                });
                if let Some((mx, mn, sat)) = r {
                    self.emit(json!({"ev":"maxsat","a":a,"list":list.iter().map(ver_to_json).collect::<Vec<_>>(),
                        "sat":sat,"max":mx,"min":mn}));
                }
            }
            "concat" => {
                // C02: a, b, `a b` / `b a` or `a||b` / `b || a`, all parsed from the same texts
                let kind = st.get("kind").and_then(|x| x.as_str()).unwrap_or("and").to_string();
                let ta = st.get("a").and_then(unbytes).unwrap_or_default();
                let tb = st.get("b").and_then(unbytes).unwrap_or_default();
                let (tab, tba) = if kind == "and" {
                    (format!("{} {}", ta, tb), format!("{}  {}", tb, ta))
                } else {
                    (format!("{}||{}", ta, tb), format!("{} || {}", tb, ta))
                };
                let texts = [ta.clone(), tb.clone(), tab.clone(), tba.clone()];
                let parsed = self.call("Range::parse", || texts.iter().map(|t| Range::parse(t).ok()).collect::<Vec<_>>());
                let parsed = match parsed {
                    Some(p) => p,
                    None => return,
                };
                let structs: Vec<Bounds> = parsed.iter().map(|r| r.as_ref().map(|x| x.verif_bounds()).unwrap_or_default()).collect();
                let mut ps: Vec<Version> = match st.get("vs").and_then(|x| x.as_array()) {
                    Some(l) => l.iter().filter_map(ver_from_json).collect(),
                    None => vec![],
                };
                for v in probes(&[&structs[0], &structs[1], &structs[2], &structs[3]], self.probe_cap) {
                    push_unique(&mut ps, v);
                }
                let p2 = parsed.clone();
                let obs = self.call("satisfies", move || {
                    ps.iter()
                        .map(|v| {
                            let f = |i: usize| p2[i].as_ref().map(|r| r.satisfies(v)).unwrap_or(false);
                            json!({"v":ver_to_json(v),"a":f(0),"b":f(1),"ab":f(2),"ba":f(3)})
                        })
                        .collect::<Vec<_>>()
                });
                if let Some(obs) = obs {
                    let ok = |i: usize| if parsed[i].is_some() { "ok" } else { "err" };
                    self.emit(json!({"ev":"concat","kind":kind,"ta":bytes(&ta),"tb":bytes(&tb),"tab":bytes(&tab),"tba":bytes(&tba),
                        "oa":ok(0),"ob":ok(1),"oab":ok(2),"oba":ok(3),
                        "A":bounds_to_json(&structs[0]),"B":bounds_to_json(&structs[1]),
                        "AB":bounds_to_json(&structs[2]),"BA":bounds_to_json(&structs[3]),"obs":obs}));
                }
            }
            "ident" => {
                // an identity the session must honour: registers l and r admit the same versions / l admits none
                let (l, r) = (gi("l"), gi("r"));
                let kind = st.get("kind").and_then(|x| x.as_str()).unwrap_or("eq").to_string();
                let (rl, rr_) = (self.reg(l), self.reg(r));
                let sl = rl.as_ref().map(|x| x.verif_bounds()).unwrap_or_default();
                let sr = rr_.as_ref().map(|x| x.verif_bounds()).unwrap_or_default();
                let ps = probes(&[&sl, &sr], self.probe_cap);
                let (c1, c2) = (rl.clone(), rr_.clone());
                let obs = self.call("satisfies", move || {
                    ps.iter()
                        .map(|v| {
                            json!({"v":ver_to_json(v),
                                   "l":c1.as_ref().map(|x| x.satisfies(v)).unwrap_or(false),
                                   "r":c2.as_ref().map(|x| x.satisfies(v)).unwrap_or(false)})
                        })
                        .collect::<Vec<_>>()
                });
                if let Some(obs) = obs {
                    self.emit(json!({"ev":"ident","kind":kind,"l":l,"r":r,"lnil":rl.is_none(),"rnil":rr_.is_none(),"obs":obs}));
                }
            }
            "rany" => {
                let dst = gi("dst");
                let r = self.call("any", Range::any);
                if let Some(r) = &r {
                    self.emit(json!({"ev":"rany","dst":dst,"val":range_to_json(r)}));
                }
                self.regs[dst] = r;
            }
            "req" => {
                let (a, b) = (gi("a"), gi("b"));
                let (ra, rb) = match (self.reg(a), self.reg(b)) {
                    (Some(x), Some(y)) => (x, y),
                    _ => return self.skip(c),
                };
                let r = self.call("range_eq", || {
                    let h = |r: &Range| {
                        let mut s = DefaultHasher::new();
                        r.hash(&mut s);
                        s.finish()
                    };
                    (ra == rb, h(&ra) == h(&rb))
                });
                if let Some((eq, heq)) = r {
                    self.emit(json!({"ev":"req","a":a,"b":b,"eq":eq,"heq":heq}));
                }
            }
            // ---------------------------------------------------- version steps
            "vparse" => {
                let text = st.get("text").and_then(unbytes).unwrap_or_default();
                self.vparse(&text);
            }
            "vbuilt" => {
                // C12 for versions built from canonical identifiers (not through the parser)
                let v = match st.get("v").and_then(ver_from_json) {
                    Some(v) => v,
                    None => return self.skip(c),
                };
                let v2 = v.clone();
                let more = self.call("version_roundtrip", move || {
                    let p = v2.to_string();
                    let re = Version::parse(&p);
                    let p2 = re.as_ref().map(|x| x.to_string()).unwrap_or_default();
                    let js = serde_json::to_string(&v2).unwrap_or_default();
                    let jb: Result<Version, _> = serde_json::from_str(&js);
                    let jb = match jb {
                        Ok(x) => json!({"out":"ok","val":ver_to_json(&x)}),
                        Err(_) => json!({"out":"err"}),
                    };
                    (p, vres_json(&re), p2, js, jb, version_json_routes(&v2))
                });
                if let Some((p, re, p2, js, jb, routes)) = more {
                    self.emit(json!({"ev":"vbuilt","val":ver_to_json(&v),"print":bytes(&p),"re":re,"print2":bytes(&p2),"json":bytes(&js),"jback":jb,"jroutes":routes}));
                }
            }
            "vcmp" => {
                let (a, b) = match (st.get("a").and_then(ver_from_json), st.get("b").and_then(ver_from_json)) {
                    (Some(a), Some(b)) => (a, b),
                    _ => return self.skip(c),
                };
                let (a2, b2) = (a.clone(), b.clone());
                let r = self.call("cmp", move || {
                    // explicit types: otherwise max/min are inferred on raw pointers and compare addresses
                    let mx: &Version = std::cmp::max(&a2, &b2);
                    let mn: &Version = std::cmp::min(&a2, &b2);
                    json!({
                        "cmp": ord_int(a2.cmp(&b2)), "pcmp": a2.partial_cmp(&b2).map(ord_int).unwrap_or(9),
                        "rcmp": ord_int(b2.cmp(&a2)),
                        "eq": a2 == b2, "ne": a2 != b2, "lt": a2 < b2, "le": a2 <= b2, "gt": a2 > b2, "ge": a2 >= b2,
                        "heq": hash_of(&a2) == hash_of(&b2),
                        // hashing through a container goes through Hash::hash_slice
                        "hseq": hash_of(&vec![a2.clone()]) == hash_of(&vec![b2.clone()]) && hash_of(&[a2.clone(), b2.clone()][..]) == hash_of(&[b2.clone(), a2.clone()][..]),
                        // the by-value provided methods of Ord (a type may override them)
                        "vmax": ver_to_json(&a2.clone().max(b2.clone())), "vmin": ver_to_json(&a2.clone().min(b2.clone())),
                        "vmaxr": ver_to_json(&b2.clone().max(a2.clone())), "vminr": ver_to_json(&b2.clone().min(a2.clone())),
                        "maxa": std::ptr::eq(mx, &a2), "mina": std::ptr::eq(mn, &a2),
                        "prea": a2.is_prerelease(),
                    })
                });
                if let Some(mut r) = r {
                    let m = r.as_object_mut().unwrap();
                    m.insert("ev".into(), json!("vcmp"));
                    m.insert("a".into(), ver_to_json(&a));
                    m.insert("b".into(), ver_to_json(&b));
                    self.emit(r);
                }
            }
            "vsort" => {
                let list: Vec<Version> = st
                    .get("list")
                    .and_then(|x| x.as_array())
                    .map(|l| l.iter().filter_map(ver_from_json).collect())
                    .unwrap_or_default();
                let l2 = list.clone();
                let r = self.call("sort", move || {
                    let mut s = l2.clone();
                    s.sort();
                    let mut u = l2.clone();
                    u.sort_unstable();
                    let mx = l2.iter().max().cloned();
                    let mn = l2.iter().min().cloned();
                    (s, u, mx, mn)
                });
                if let Some((s, u, mx, mn)) = r {
                    let vj = |l: &Vec<Version>| l.iter().map(ver_to_json).collect::<Vec<_>>();
                    let oj = |o: &Option<Version>| o.iter().map(ver_to_json).collect::<Vec<_>>();
                    self.emit(json!({"ev":"vsort","list":vj(&list),"sorted":vj(&s),"usorted":vj(&u),"max":oj(&mx),"min":oj(&mn)}));
                }
            }
            "vdiff" => {
                let (a, b) = match (st.get("a").and_then(ver_from_json), st.get("b").and_then(ver_from_json)) {
                    (Some(a), Some(b)) => (a, b),
                    _ => return self.skip(c),
                };
                let (a2, b2) = (a.clone(), b.clone());
                let r = self.call("diff", move || {
                    let f = |d: Option<nodejs_semver::VersionDiff>| d.map(|x| x.to_string()).unwrap_or("none".into());
                    (f(a2.diff(&b2)), f(b2.diff(&a2)), f(a2.diff(&a2)))
                });
                if let Some((res, rev, selfd)) = r {
                    self.emit(json!({"ev":"vdiff","a":ver_to_json(&a),"b":ver_to_json(&b),"res":res,"rev":rev,"self":selfd}));
                }
            }
            "vtuple" => self.vtuple(st),
            _ => self.skip("unknown-step"),
        }
    }

    pub fn rparse(&mut self, dst: usize, text: &str, ast: Option<Value>, vs: Option<&Value>) {
        let t0 = Instant::now();
        let r = self.call("Range::parse", || Range::parse(text));
        let mut us = t0.elapsed().as_micros().min(2_000_000_000) as u64;
        let r = match r {
            Some(r) => r,
            None => {
                self.regs[dst] = None;
                return;
            }
        };
        // the time clause is about the parser, not about the scheduler: a slow call is re-measured (minimum of three)
        for _ in 0..2 {
            if us <= 10_000 {
                break;
            }
            let t1 = Instant::now();
            let _ = self.call("Range::parse", || Range::parse(text).is_ok());
            us = us.min(t1.elapsed().as_micros().min(2_000_000_000) as u64);
        }
        let mut ev = Map::new();
        ev.insert("ev".into(), json!("rparse"));
        ev.insert("dst".into(), json!(dst));
        ev.insert("text".into(), bytes(text));
        ev.insert("us".into(), json!(us));
        if let Some(a) = ast {
            ev.insert("ast".into(), a);
        }
        match &r {
            Ok(rg) => {
                let s = rg.verif_bounds();
                let mut ps: Vec<Version> = match vs.and_then(|x| x.as_array()) {
                    Some(l) => l.iter().filter_map(ver_from_json).collect(),
                    None => vec![],
                };
                for v in probes(&[&s], self.probe_cap) {
                    push_unique(&mut ps, v);
                }
                let rg2 = rg.clone();
                let obs = self.call("satisfies", move || {
                    ps.iter()
                        .map(|v| json!({"v":ver_to_json(v),"r":rg2.satisfies(v),"vr":v.satisfies(&rg2)}))
                        .collect::<Vec<_>>()
                });
                let obs = match obs {
                    Some(o) => o,
                    None => {
                        self.regs[dst] = None;
                        return;
                    }
                };
                let fs = self.call("from_str", || text.parse::<Range>().map(|x| x == rg.clone()).unwrap_or(false));
                ev.insert("out".into(), json!("ok"));
                ev.insert("val".into(), bounds_to_json(&s));
                ev.insert("obs".into(), Value::Array(obs));
                ev.insert("fromstr_eq".into(), json!(fs.unwrap_or(false)));
                self.regs[dst] = Some(rg.clone());
            }
            Err(e) => {
                ev.insert("out".into(), json!("err"));
                ev.insert("err".into(), err_json(e));
                self.regs[dst] = None;
            }
        }
        self.emit(Value::Object(ev));
    }

    pub fn vparse(&mut self, text: &str) {
        let t0 = Instant::now();
        let r = self.call("Version::parse", || Version::parse(text));
        let mut us = t0.elapsed().as_micros().min(2_000_000_000) as u64;
        let r = match r {
            Some(r) => r,
            None => return,
        };
        for _ in 0..2 {
            if us <= 10_000 {
                break;
            }
            let t1 = Instant::now();
            let _ = self.call("Version::parse", || Version::parse(text).is_ok());
            us = us.min(t1.elapsed().as_micros().min(2_000_000_000) as u64);
        }
        let mut ev = Map::new();
        ev.insert("ev".into(), json!("vparse"));
        ev.insert("text".into(), bytes(text));
        ev.insert("us".into(), json!(us));
        match &r {
            Ok(v) => {
                ev.insert("out".into(), json!("ok"));
                ev.insert("val".into(), ver_to_json(v));
                let v2 = v.clone();
                let more = self.call("version_roundtrip", move || {
                    let p = v2.to_string();
                    let dbg = format!("{:?}", v2).len();
                    let re = Version::parse(&p);
                    let p2 = re.as_ref().map(|x| x.to_string()).unwrap_or_default();
                    let js = serde_json::to_string(&v2).unwrap_or_default();
                    let jb: Result<Version, _> = serde_json::from_str(&js);
                    let jb = match jb {
                        Ok(x) => json!({"out":"ok","val":ver_to_json(&x)}),
                        Err(_) => json!({"out":"err"}),
                    };
                    (p, dbg, vres_json(&re), p2, js, jb, v2.is_prerelease(), version_json_routes(&v2))
                });
                if let Some((p, _dbg, re, p2, js, jb, ispre, routes)) = more {
                    ev.insert("jroutes".into(), routes);
                    ev.insert("print".into(), bytes(&p));
                    ev.insert("re".into(), re);
                    ev.insert("print2".into(), bytes(&p2));
                    ev.insert("json".into(), bytes(&js));
                    ev.insert("jback".into(), jb);
                    ev.insert("ispre".into(), json!(ispre));
                } else {
                    return;
                }
            }
            Err(e) => {
                ev.insert("out".into(), json!("err"));
                ev.insert("err".into(), err_json(e));
            }
        }
        // the same text through FromStr and through serde Deserialize of a JSON string
        let t = text.to_string();
        let alt = self.call("version_alt_parsers", move || {
            let fs = t.parse::<Version>();
            let js = serde_json::to_string(&t).unwrap_or_default();
            let de: Result<Version, _> = serde_json::from_str(&js);
            let de = match de {
                Ok(x) => json!({"out":"ok","val":ver_to_json(&x)}),
                Err(_) => json!({"out":"err"}),
            };
            let fs = match fs {
                Ok(x) => json!({"out":"ok","val":ver_to_json(&x)}),
                Err(_) => json!({"out":"err"}),
            };
            (fs, de)
        });
        if let Some((fs, de)) = alt {
            ev.insert("fromstr".into(), fs);
            ev.insert("deser".into(), de);
        } else {
            return;
        }
        self.emit(Value::Object(ev));
    }

    fn vtuple(&mut self, st: &Value) {
        let ty = st.get("ty").and_then(|x| x.as_str()).unwrap_or("").to_string();
        let vals: Vec<u64> = st
            .get("vals")
            .and_then(|x| x.as_array())
            .map(|l| l.iter().filter_map(undigits).collect())
            .unwrap_or_default();
        if vals.len() != 3 && vals.len() != 4 {
            return self.skip("vtuple-arity");
        }
        macro_rules! conv {
            ($t:ty, $vals:ident) => {{
                let vals = &$vals;
                let fits = vals.iter().all(|x| <$t>::try_from(*x).is_ok());
                if !fits {
                    None
                } else if vals.len() == 3 {
                    Some(Version::from((vals[0] as $t, vals[1] as $t, vals[2] as $t)))
                } else {
                    Some(Version::from((vals[0] as $t, vals[1] as $t, vals[2] as $t, vals[3] as $t)))
                }
            }};
        }
        let ty2 = ty.clone();
        let vals2 = vals.clone();
        let r = self.call("from_tuple", move || {
            let vals = vals2;
            let v: Option<Version> = match ty2.as_str() {
                "u8" => conv!(u8, vals),
                "u16" => conv!(u16, vals),
                "u32" => conv!(u32, vals),
                "u64" => conv!(u64, vals),
                "usize" => conv!(usize, vals),
                "i8" => conv!(i8, vals),
                "i16" => conv!(i16, vals),
                "i32" => conv!(i32, vals),
                "i64" => conv!(i64, vals),
                "isize" => conv!(isize, vals),
                _ => None,
            };
            v.map(|v| {
                let p = v.to_string();
                let dotted = if vals.len() == 3 {
                    format!("{}.{}.{}", vals[0], vals[1], vals[2])
                } else {
                    format!("{}.{}.{}-{}", vals[0], vals[1], vals[2], vals[3])
                };
                let parsed = Version::parse(&dotted);
                let eq = parsed.as_ref().map(|x| *x == v).unwrap_or(false);
                (v, p, dotted, vres_json(&parsed), eq)
            })
        });
        match r {
            Some(Some((v, p, dotted, parsed, eq))) => self.emit(json!({
                "ev":"vtuple","ty":ty,"vals":vals.iter().map(|x| digits(*x)).collect::<Vec<_>>(),
                "val":ver_to_json(&v),"print":bytes(&p),"dotted":bytes(&dotted),"parsed":parsed,"eq":eq})),
            Some(None) => self.skip("vtuple-does-not-fit"),
            None => {}
        }
    }

    /// C06: both parsers on one text, then every operation on whatever they returned, against itself and
    /// against the most recently produced values.  Every call is wrapped; a panic is an event.
    pub fn soup(&mut self, text: &str) {
        let t0 = Instant::now();
        let mut ops = 0u64;
        self.vparse(text);
        self.rparse(1, text, None, None);
        let v = self.call("Version::parse", || Version::parse(text)).and_then(|x| x.ok());
        let r = self.reg(1);
        let probe_list: Vec<Version> = {
            let mut l: Vec<Version> = self.vpool.iter().cloned().collect();
            if let Some(r) = &r {
                l.extend(probes(&[&r.verif_bounds()], 16));
            }
            if let Some(v) = &v {
                l.push(v.clone());
            }
            l
        };
        if let Some(r) = &r {
            let others: Vec<Range> = std::iter::once(r.clone()).chain(self.rpool.iter().cloned()).collect();
            let pl = probe_list.clone();
            let rc = r.clone();
            ops += self.call("to_string", || rc.to_string().len() + format!("{:?}", rc).len()).map(|_| 2).unwrap_or(0);
            ops += self.call("min_version", || rc.min_version().map(|m| m.to_string().len())).map(|_| 1).unwrap_or(0);
            ops += self.call("max_satisfying", || (rc.max_satisfying(&pl).is_some(), rc.min_satisfying(&pl).is_some())).map(|_| 2).unwrap_or(0);
            ops += self.call("satisfies", || pl.iter().filter(|v| rc.satisfies(v) && v.satisfies(&rc)).count()).map(|_| pl.len() as u64).unwrap_or(0);
            for q in &others {
                let (a, b) = (r.clone(), q.clone());
                let i1 = self.call("intersect", || (a.intersect(&b), b.intersect(&a)));
                let (a, b) = (r.clone(), q.clone());
                let d1 = self.call("difference", || (a.difference(&b), b.difference(&a)));
                let (a, b) = (r.clone(), q.clone());
                self.call("allows_any", || (a.allows_any(&b), b.allows_any(&a)));
                let (a, b) = (r.clone(), q.clone());
                self.call("allows_all", || (a.allows_all(&b), b.allows_all(&a)));
                ops += 8;
                // compositions: results as operands, printed, re-parsed, minimised
                let mut derived: Vec<Range> = Vec::new();
                if let Some((x, y)) = i1 {
                    derived.extend(x);
                    derived.extend(y);
                }
                if let Some((x, y)) = d1 {
                    derived.extend(x);
                    derived.extend(y);
                }
                for dres in derived.iter().take(4) {
                    let (a, b, c) = (dres.clone(), r.clone(), q.clone());
                    self.call("to_string", || Range::parse(a.to_string()).is_ok());
                    let a = dres.clone();
                    self.call("min_version", || a.min_version().is_some());
                    let a = dres.clone();
                    self.call("difference", || (a.difference(&b).is_some(), c.difference(&a).is_some()));
                    let (a, b) = (dres.clone(), r.clone());
                    self.call("intersect", || a.intersect(&b).map(|z| z.allows_all(&a)));
                    ops += 5;
                }
            }
            self.rpool.push_front(r.clone());
            self.rpool.truncate(5);
        }
        if let Some(v) = &v {
            let pool: Vec<Version> = self.vpool.iter().cloned().collect();
            let vc = v.clone();
            self.call("diff", || pool.iter().map(|w| (vc.diff(w), w.diff(&vc), vc.cmp(w), vc == *w)).count());
            let vc = v.clone();
            let rp: Vec<Range> = self.rpool.iter().cloned().collect();
            self.call("satisfies", || rp.iter().filter(|r| vc.satisfies(r)).count());
            ops += 2;
            self.vpool.push_front(v.clone());
            self.vpool.truncate(4);
        }
        let us = t0.elapsed().as_micros().min(2_000_000_000) as u64;
        self.emit(json!({"ev":"soup","len":text.len() as u64,"vok":v.is_some(),"rok":r.is_some(),"ops":ops,"us":us}));
    }

    /// C06, linear time: the same token repeated to n, 2n, 4n, 8n bytes; minimum of three runs each.
    pub fn timing(&mut self, st: &Value) {
        let unit = st.get("unit").and_then(unbytes).unwrap_or_default();
        let prefix = st.get("prefix").and_then(unbytes).unwrap_or_default();
        let parser = st.get("parser").and_then(|x| x.as_str()).unwrap_or("range").to_string();
        let n0 = st.get("n").and_then(|x| x.as_u64()).unwrap_or(16384) as usize;
        let mut sizes = Vec::new();
        let mut times = Vec::new();
        for k in 0..5 {
            let target = n0 << k;
            // a unit containing `{i}` is instantiated with a running counter, so that all pieces are pairwise different
            let text = if unit.contains("{i}") {
                let mut t = String::with_capacity(target + 32);
                let mut i = 0u64;
                while t.len() < target {
                    t.push_str(&unit.replace("{i}", &i.to_string()));
                    i += 1;
                }
                t
            } else {
                format!("{}{}", prefix, unit.repeat((target / unit.len().max(1)).max(1)))
            };
            let mut best = u64::MAX;
            // minimum of up to seven runs (fast runs are cheap to repeat and the minimum is what is robust against
            // a busy machine); a run that is slow already is not repeated
            for _rep in 0..7 {
                let t0 = Instant::now();
                let t = text.clone();
                let p = parser.clone();
                let ok = self.call(if parser == "range" { "Range::parse" } else { "Version::parse" }, move || {
                    if p == "range" {
                        Range::parse(&t).map(|r| r.to_string().len()).unwrap_or(0)
                    } else {
                        Version::parse(&t).map(|r| r.to_string().len()).unwrap_or(0)
                    }
                });
                if ok.is_none() {
                    return;
                }
                best = best.min(t0.elapsed().as_micros().min(2_000_000_000) as u64);
                if best > 500_000 || (_rep >= 2 && best > 50_000) {
                    break; // slow already: no need to repeat further
                }
            }
            sizes.push(text.len() as u64);
            times.push(best);
            if best > 2_000_000 {
                break; // far beyond any budget: stop the series, what was measured is judged
            }
        }
        self.emit(json!({"ev":"timing","parser":parser,"unit":bytes(&unit),"n":sizes,"us":times}));
    }

    /// Every operation between a range with `pieces` alternatives (unit instantiated with a counter, joined by `||`)
    /// and each small range, both ways; one `deepops` event with the time of each call.
    pub fn deepops(&mut self, st: &Value) {
        let unit = st.get("unit").and_then(unbytes).unwrap_or_default();
        let pieces = st.get("pieces").and_then(|x| x.as_u64()).unwrap_or(1000);
        let small: Vec<String> = st.get("small").and_then(|x| x.as_array()).map(|l| l.iter().filter_map(unbytes).collect()).unwrap_or_default();
        let mut text = String::new();
        for i in 0..pieces {
            if i > 0 {
                text.push_str("||");
            }
            text.push_str(&unit.replace("{i}", &i.to_string()));
        }
        let t2 = text.clone();
        let huge = match self.call("Range::parse", move || Range::parse(&t2).ok()) {
            Some(Some(h)) => h,
            Some(None) => return self.skip("deepops-unparsed"),
            None => return,
        };
        let h2 = huge.clone();
        let alts = match self.call("verif_bounds", move || h2.verif_bounds().len() as u64) {
            Some(n) => n,
            None => return,
        };
        let mut ops: Vec<Value> = Vec::new();
        let probe = Version::from((2u64, 0, 7));
        macro_rules! timed {
            ($name:expr, $body:expr) => {{
                let t0 = Instant::now();
                let r = self.call($name, $body);
                if r.is_none() {
                    return;
                }
                ops.push(json!({"name":$name,"us":t0.elapsed().as_micros().min(2_000_000_000) as u64}));
            }};
        }
        {
            let (h, p) = (huge.clone(), probe.clone());
            timed!("satisfies", move || h.satisfies(&p));
            let h = huge.clone();
            timed!("min_version", move || h.min_version().is_some());
            let h = huge.clone();
            timed!("to_string", move || h.to_string().len());
            let (h, l) = (huge.clone(), vec![probe.clone(), Version::from((0u64, 0, 1)), Version::from((9u64, 9, 9))]);
            timed!("max_satisfying", move || (h.max_satisfying(&l).is_some(), h.min_satisfying(&l).is_some()));
        }
        for s in &small {
            let sr = match Range::parse(s) {
                Ok(x) => x,
                Err(_) => continue,
            };
            // small minus huge only for a single-version operand: a wide one is legitimately cut into one piece per
            // alternative of the other, and the naive sweep over the pieces is quadratic without being wrong
            if sr.verif_bounds().iter().all(|(lo, up)| lo.is_some() && lo == up) {
                let (h, x) = (huge.clone(), sr.clone());
                timed!("difference(small, huge)", move || x.difference(&h).is_some());
            }
            let (h, x) = (huge.clone(), sr.clone());
            timed!("difference(huge, small)", move || h.difference(&x).is_some());
            let (h, x) = (huge.clone(), sr.clone());
            timed!("intersect(small, huge)", move || x.intersect(&h).is_some());
            let (h, x) = (huge.clone(), sr.clone());
            timed!("intersect(huge, small)", move || h.intersect(&x).is_some());
            let (h, x) = (huge.clone(), sr.clone());
            timed!("allows_any", move || (x.allows_any(&h), h.allows_any(&x)));
            let (h, x) = (huge.clone(), sr.clone());
            timed!("allows_all", move || (x.allows_all(&h), h.allows_all(&x)));
        }
        self.emit(json!({"ev":"deepops","unit":bytes(&unit),"alts":alts,"ops":ops}));
    }

    /// Two comparators whose tags have `n` identifiers each, on the same tuple: comparison of long identifier lists
    /// (a version text is limited to 256 bytes, a range text is not). One `deepops` event.
    pub fn deeptags(&mut self, st: &Value) {
        let n = st.get("n").and_then(|x| x.as_u64()).unwrap_or(1000);
        let id = st.get("id").and_then(unbytes).unwrap_or_else(|| "0".into());
        let ids = vec![id.as_str(); n as usize].join(".");
        let text = format!(">=1.0.0-{}.1 <1.0.0-{}.5", ids, ids);
        let other = format!(">=1.0.0-{}.3 <=1.0.0-{}.7", ids, ids);
        let mut ops: Vec<Value> = Vec::new();
        macro_rules! timed {
            ($name:expr, $body:expr) => {{
                let t0 = Instant::now();
                let r = self.call($name, $body);
                let r = match r {
                    Some(x) => x,
                    None => return,
                };
                ops.push(json!({"name":$name,"us":t0.elapsed().as_micros().min(2_000_000_000) as u64}));
                r
            }};
        }
        let t = text.clone();
        let a = timed!("Range::parse", move || Range::parse(&t).ok());
        let t = other.clone();
        let b = timed!("Range::parse", move || Range::parse(&t).ok());
        let (a, b) = match (a, b) {
            (Some(a), Some(b)) => (a, b),
            _ => return self.skip("deeptags-unparsed"),
        };
        let x = a.clone();
        let ma = timed!("min_version", move || x.min_version());
        let x = b.clone();
        let mb = timed!("min_version", move || x.min_version());
        if let (Some(ma), Some(mb)) = (ma, mb) {
            let (x, y) = (ma.clone(), mb.clone());
            timed!("cmp", move || (x.cmp(&y), y.cmp(&x), x == y, hash_of(&x) == hash_of(&y)));
            let (r, x, y) = (a.clone(), ma.clone(), mb.clone());
            timed!("satisfies", move || (r.satisfies(&x), r.satisfies(&y)));
            let (x, y) = (ma.clone(), mb.clone());
            timed!("diff", move || x.diff(&y).is_some());
            let x = ma.clone();
            timed!("to_string", move || x.to_string().len());
        }
        let (x, y) = (a.clone(), b.clone());
        timed!("intersect", move || (x.intersect(&y).is_some(), y.intersect(&x).is_some(), x.intersect(&x).is_some()));
        let (x, y) = (a.clone(), b.clone());
        timed!("difference", move || (x.difference(&y).is_some(), y.difference(&x).is_some(), x.difference(&x).is_some()));
        let (x, y) = (a.clone(), b.clone());
        timed!("allows_any", move || (x.allows_any(&y), y.allows_any(&x)));
        let (x, y) = (a.clone(), b.clone());
        timed!("allows_all", move || (x.allows_all(&y), y.allows_all(&x), x.allows_all(&x)));
        let x = a.clone();
        timed!("to_string", move || x.to_string().len());
        self.emit(json!({"ev":"deepops","unit":bytes(&id),"alts":n,"ops":ops}));
    }

    // ------------------------------------------------------------ cases
    pub fn run_case(&mut self, case: &Value) {
        for r in self.regs.iter_mut() {
            *r = None;
        }
        let op = case.get("op").and_then(|x| x.as_str()).unwrap_or("");
        self.emit(json!({"ev":"reset","op":op}));
        match op {
            "pair" => {
                let a = case.get("A").cloned().unwrap_or(json!([]));
                let b = case.get("B").cloned().unwrap_or(json!([]));
                let steps = vec![
                    json!({"c":"rload","dst":1,"val":a}),
                    json!({"c":"rload","dst":2,"val":b}),
                    json!({"c":"isect","dst":3,"a":1,"b":2}),
                    json!({"c":"isect","dst":4,"a":2,"b":1}),
                    json!({"c":"isect","dst":5,"a":1,"b":1}),
                    json!({"c":"diff","dst":6,"a":1,"b":2}),
                    json!({"c":"any","a":1,"b":2}),
                    json!({"c":"all","a":1,"b":2}),
                    json!({"c":"all","a":1,"b":1}),
                    json!({"c":"minv","a":1}),
                    json!({"c":"sat","a":1}),
                    json!({"c":"print","dst":7,"a":3}),
                    json!({"c":"print","dst":8,"a":6}),
                    json!({"c":"minv","a":6}),
                ];
                let only: Option<Vec<String>> = case.get("do").and_then(|x| x.as_array()).map(|l| {
                    l.iter().filter_map(|x| x.as_str().map(|s| s.to_string())).collect()
                });
                for s in &steps {
                    let c = s.get("c").and_then(|x| x.as_str()).unwrap_or("");
                    if let Some(only) = &only {
                        if c != "rload" && !only.iter().any(|o| o == c) {
                            continue;
                        }
                    }
                    self.step(s);
                }
            }
            "soup" => {
                let text = case.get("text").and_then(unbytes).unwrap_or_default();
                self.soup(&text);
            }
            "timing" => self.timing(case),
            "deepops" => self.deepops(case),
            "deeptags" => self.deeptags(case),
            "steps" => {
                if let Some(steps) = case.get("steps").and_then(|x| x.as_array()) {
                    for s in steps {
                        self.step(s);
                    }
                }
            }
            // a single step given directly as the case, optionally followed by standard follow-ups on register 1
            _ => {
                let mut st = case.clone();
                if let Some(m) = st.as_object_mut() {
                    m.insert("c".into(), json!(op));
                }
                self.step(&st);
                let then: Vec<String> = case
                    .get("then")
                    .and_then(|x| x.as_array())
                    .map(|l| l.iter().filter_map(|x| x.as_str().map(|s| s.to_string())).collect())
                    .unwrap_or_default();
                for t in then {
                    match t.as_str() {
                        "print" => self.step(&json!({"c":"print","dst":2,"a":1})),
                        "minv" => self.step(&json!({"c":"minv","a":1})),
                        "sat" => self.step(&json!({"c":"sat","a":1})),
                        "maxsat" => {
                            // the probe versions of the case as an unsorted list with duplicates and build-only variants
                            let mut list: Vec<Value> = case.get("vs").and_then(|x| x.as_array()).cloned().unwrap_or_default();
                            let n = list.len();
                            for k in 0..n.min(6) {
                                let mut d = list[(k * 7) % n].clone();
                                if k % 2 == 0 {
                                    d["bld"] = json!([{"k":"a","s":[98]},{"k":"n","d":[k as u64]}]);
                                }
                                list.insert((k * 5) % (n + k), d);
                            }
                            if n > 3 && (n * 31 + list.len()) % 5 == 0 {
                                // the same version three or more times, and a longer list
                                let d = list[n / 2].clone();
                                for k in 0..3 {
                                    list.insert((k * 11) % list.len(), d.clone());
                                }
                                let more: Vec<Value> = list.iter().rev().take(40).cloned().collect();
                                list.extend(more);
                                let again: Vec<Value> = list.iter().step_by(2).cloned().collect();
                                list.extend(again);
                                list.truncate(120);
                            } else {
                                list.truncate(24);
                            }
                            self.step(&json!({"c":"maxsat","a":1,"list":list.clone()}));
                            list.reverse();
                            let cut = list.len() / 3;
                            list.rotate_left(cut);
                            self.step(&json!({"c":"maxsat","a":1,"list":list.clone()}));
                            self.step(&json!({"c":"maxsat","a":1,"list":[]}));
                            // the list in ascending and in descending order (callers often pass a sorted list of releases)
                            let mut vs: Vec<Version> = list.iter().filter_map(ver_from_json).collect();
                            vs.truncate(40);
                            vs.sort();
                            let asc: Vec<Value> = vs.iter().map(ver_to_json).collect();
                            self.step(&json!({"c":"maxsat","a":1,"list":asc.clone()}));
                            let desc: Vec<Value> = asc.iter().rev().cloned().collect();
                            self.step(&json!({"c":"maxsat","a":1,"list":desc}));
                            // and against Range::any(), which admits no prerelease
                            self.step(&json!({"c":"rany","dst":3}));
                            self.step(&json!({"c":"maxsat","a":3,"list":asc}));
                        }
                        _ => self.skip("unknown-then"),
                    }
                }
            }
        }
    }
}
