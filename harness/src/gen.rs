//! Seeded case generators (inputs only - expectations come from the TLA+ specification).

use serde_json::Value;
use std::io::Write;

pub struct Rng(pub u64);
impl Rng {
    pub fn next(&mut self) -> u64 {
        // splitmix64
        self.0 = self.0.wrapping_add(0x9E3779B97F4A7C15);
        let mut z = self.0;
        z = (z ^ (z >> 30)).wrapping_mul(0xBF58476D1CE4E5B9);
        z = (z ^ (z >> 27)).wrapping_mul(0x94D049BB133111EB);
        z ^ (z >> 31)
    }
    pub fn below(&mut self, n: u64) -> u64 {
        if n == 0 { 0 } else { self.next() % n }
    }
    pub fn chance(&mut self, num: u64, den: u64) -> bool {
        self.below(den) < num
    }
    pub fn pick<'a, T>(&mut self, xs: &'a [T]) -> &'a T {
        &xs[self.below(xs.len() as u64) as usize]
    }
}

pub fn generate<W: Write>(_scenario: &str, _seed: u64, _n: usize, _out: &mut W) -> usize {
    let _ = Value::Null;
    0
}
