//! Seeded case generators (inputs only - every expectation comes from the TLA+ specification).

use crate::enc::*;
use nodejs_semver::{Identifier, VerifSide, Version, MAX_SAFE_INTEGER};
use serde_json::{json, Value};
use std::io::Write;

pub struct Rng(pub u64);
impl Rng {
    pub fn next(&mut self) -> u64 {
        // splitmix64
        self.0 = self.0.wrapping_add(0x9E3779B97F4A7C15);
        let mut z = self.0;
        z = (z ^ (z >> 30)).wrapping_mul(0xBF58476D1CE4E5B9);
        z = (z ^ (z >> 27)).wrapping_mul(0x94D049BB133111EB);
        z ^ (z >> 31)
    }
    pub fn below(&mut self, n: u64) -> u64 {
        if n == 0 {
            0
        } else {
            self.next() % n
        }
    }
    pub fn chance(&mut self, num: u64, den: u64) -> bool {
        self.below(den) < num
    }
    pub fn pick<'a, T>(&mut self, xs: &'a [T]) -> &'a T {
        &xs[self.below(xs.len() as u64) as usize]
    }
}

// ---------------------------------------------------------------- building blocks
pub fn component(r: &mut Rng) -> u64 {
    match r.below(10) {
        0..=3 => r.below(3),
        4 => 9 + r.below(3),
        5 => 99 + r.below(3),
        6 => MAX_SAFE_INTEGER - r.below(2),
        7 => r.below(1000),
        8 => r.below(MAX_SAFE_INTEGER),
        _ => r.below(5),
    }
}

const ALNUM: &[&str] = &[
    "a", "b", "A", "B", "alpha", "beta", "rc", "a-", "-", "--", "a0", "0a", "a-b", "Z", "z", "x", "pre", "1a", "-1", "a1",
];

pub fn identifier(r: &mut Rng) -> Identifier {
    match r.below(10) {
        0..=2 => Identifier::Numeric(r.below(3)),
        3 => Identifier::Numeric(r.below(20)),
        4 => Identifier::Numeric(match r.below(4) {
            0 => u64::MAX,
            1 => u64::MAX - 1,
            2 => MAX_SAFE_INTEGER + 1,
            _ => r.next(),
        }),
        _ => Identifier::AlphaNumeric(r.pick(ALNUM).to_string()),
    }
}

pub fn idlist(r: &mut Rng, maxlen: u64) -> Vec<Identifier> {
    let n = 1 + r.below(maxlen);
    (0..n).map(|_| identifier(r)).collect()
}

pub fn version(r: &mut Rng) -> Version {
    let mut v = Version::from((component(r), component(r), component(r)));
    if r.chance(1, 2) {
        v.pre_release = idlist(r, 3);
    }
    if r.chance(1, 5) {
        v.build = idlist(r, 2);
    }
    v
}

/// A pool of versions around one tuple, rich in ties, immediate successors and `-0` bounds.
pub fn tie_pool(r: &mut Rng) -> Vec<Version> {
    let (ma, mi, pa) = (component(r), component(r), component(r).min(MAX_SAFE_INTEGER - 2));
    let tag = idlist(r, 2);
    let mut tag0 = tag.clone();
    tag0.push(Identifier::Numeric(0));
    let mk = |m: u64, n: u64, p: u64, pre: Vec<Identifier>| Version { major: m, minor: n, patch: p, pre_release: pre, build: vec![] };
    let mut pool = vec![
        mk(ma, mi, pa, tag.clone()),
        mk(ma, mi, pa, tag0),
        mk(ma, mi, pa, vec![]),
        mk(ma, mi, pa + 1, vec![Identifier::Numeric(0)]),
        mk(ma, mi, pa + 1, vec![]),
        mk(ma, mi, pa, vec![Identifier::Numeric(0)]),
    ];
    if ma < MAX_SAFE_INTEGER {
        pool.push(mk(ma + 1, 0, 0, vec![Identifier::Numeric(0)]));
        pool.push(mk(ma + 1, 0, 0, vec![]));
    }
    if r.chance(1, 2) {
        pool.push(mk(ma, mi, pa, idlist(r, 2)));
    }
    if r.chance(1, 3) {
        pool.push(mk(0, 0, 0, vec![Identifier::Numeric(0)]));
        pool.push(mk(0, 0, 0, vec![]));
    }
    if r.chance(1, 3) {
        pool.push(version(r));
    }
    pool
}

fn bound(r: &mut Rng, v: &Version) -> VerifSide {
    let mut v = v.clone();
    if r.chance(1, 12) {
        v.build = vec![Identifier::AlphaNumeric("b".into())];
    }
    Some((r.chance(1, 2), v))
}

pub fn interval(r: &mut Rng, pool: &[Version]) -> (VerifSide, VerifSide) {
    let a = r.pick(pool).clone();
    let b = r.pick(pool).clone();
    // ordering the two picks only makes valid intervals more frequent; it decides nothing
    let (lo, up) = if a <= b { (a, b) } else { (b, a) };
    match r.below(10) {
        0 => (None, bound(r, &up)),
        1 => (bound(r, &lo), None),
        2 => (Some((true, lo.clone())), Some((true, lo))),
        3 if r.chance(1, 4) => (None, None),
        _ => (bound(r, &lo), bound(r, &up)),
    }
}

pub fn range_struct(r: &mut Rng, pool: &[Version], maxalts: u64) -> Value {
    let n = 1 + r.below(maxalts);
    let ivs: Vec<(VerifSide, VerifSide)> = (0..n).map(|_| interval(r, pool)).collect();
    bounds_to_json(&ivs)
}

// ---------------------------------------------------------------- scenarios
fn ranges<W: Write>(r: &mut Rng, n: usize, out: &mut W) -> usize {
    for _ in 0..n {
        let pool = tie_pool(r);
        let a = range_struct(r, &pool, 3);
        let b = if r.chance(1, 3) { range_struct(r, &pool, 1) } else { range_struct(r, &pool, 3) };
        writeln!(out, "{}", json!({"op":"pair","A":a,"B":b})).unwrap();
    }
    n
}


fn vjson(v: &Version) -> Value {
    ver_to_json(v)
}

/// near-identical identifiers: differ only in case / digits / hyphens
fn confusable_ids(r: &mut Rng) -> (Vec<Identifier>, Vec<Identifier>) {
    const FAM: &[&str] = &["a", "A", "a-", "a0", "a1", "a10", "a2", "-a", "aa", "aA", "Aa", "a--", "a-0", "0a", "00a"];
    let n = 1 + r.below(4) as usize;
    let mut x: Vec<Identifier> = (0..n).map(|_| identifier(r)).collect();
    let mut y = x.clone();
    let k = r.below(n as u64) as usize;
    match r.below(4) {
        0 => {
            x[k] = Identifier::AlphaNumeric(r.pick(FAM).to_string());
            y[k] = Identifier::AlphaNumeric(r.pick(FAM).to_string());
        }
        1 => {
            let a = r.below(12);
            x[k] = Identifier::Numeric(a);
            y[k] = Identifier::Numeric(a * 10 + r.below(3));
        }
        2 => {
            y.truncate(k);
        }
        _ => {
            x[k] = Identifier::Numeric(r.below(30));
            y[k] = Identifier::AlphaNumeric(r.pick(FAM).to_string());
        }
    }
    (x, y)
}

fn vorder<W: Write>(r: &mut Rng, n: usize, out: &mut W) -> usize {
    let mut cnt = 0;
    while cnt < n {
        match r.below(10) {
            0..=5 => {
                // a pair sharing most of its fields
                let mut a = version(r);
                let mut b = a.clone();
                match r.below(6) {
                    0 => b.major = component(r),
                    1 => b.minor = component(r),
                    2 => b.patch = component(r),
                    3 => {
                        let (x, y) = confusable_ids(r);
                        a.pre_release = x;
                        b.pre_release = y;
                    }
                    4 => {
                        b.pre_release = if r.chance(1, 2) { vec![] } else { idlist(r, 6) };
                    }
                    _ => {
                        b.build = idlist(r, 3);
                    }
                }
                if r.chance(1, 2) {
                    std::mem::swap(&mut a, &mut b);
                }
                writeln!(out, "{}", json!({"op":"vcmp","a":vjson(&a),"b":vjson(&b)})).unwrap();
            }
            6 => {
                let a = version(r);
                let b = version(r);
                writeln!(out, "{}", json!({"op":"vcmp","a":vjson(&a),"b":vjson(&b)})).unwrap();
            }
            _ => {
                // a list with duplicates, build-only variants and confusable tags
                let base = version(r);
                let len = r.below(13) as usize;
                let mut l = Vec::new();
                for _ in 0..len {
                    let mut v = base.clone();
                    match r.below(7) {
                        0 => v = version(r),
                        1 => v.build = idlist(r, 2),
                        2 => v.pre_release = confusable_ids(r).0,
                        3 => v.pre_release = vec![],
                        4 => v.patch = component(r),
                        5 => v.minor = component(r),
                        _ => {}
                    }
                    l.push(vjson(&v));
                }
                writeln!(out, "{}", json!({"op":"vsort","list":l})).unwrap();
            }
        }
        cnt += 1;
    }
    cnt
}

fn vdiffs<W: Write>(r: &mut Rng, n: usize, out: &mut W) -> usize {
    for _ in 0..n {
        let small = |r: &mut Rng| match r.below(5) {
            0 => 0,
            1 => 1,
            2 => 2,
            _ => component(r),
        };
        let mut a = Version::from((small(r), small(r), small(r)));
        if r.chance(1, 2) {
            a.pre_release = idlist(r, 3);
        }
        let mut b = a.clone();
        for f in 0..3 {
            if r.chance(1, 3) {
                let x = small(r);
                match f {
                    0 => b.major = x,
                    1 => b.minor = x,
                    _ => b.patch = x,
                }
            }
        }
        match r.below(4) {
            0 => b.pre_release = vec![],
            1 => b.pre_release = idlist(r, 3),
            _ => {}
        }
        if r.chance(1, 4) {
            a.build = idlist(r, 2);
        }
        if r.chance(1, 4) {
            b.build = idlist(r, 2);
        }
        writeln!(out, "{}", json!({"op":"vdiff","a":vjson(&a),"b":vjson(&b)})).unwrap();
    }
    n
}

fn vtext_case<W: Write>(out: &mut W, s: &[u8]) {
    // only valid UTF-8 can be passed to the API
    if let Ok(t) = std::str::from_utf8(s) {
        writeln!(out, "{}", json!({"op":"vparse","text":bytes(t)})).unwrap();
    }
}

fn vtext<W: Write>(r: &mut Rng, n: usize, out: &mut W) -> usize {
    const MAXS: &str = "900719925474099";
    const MAXS1: &str = "900719925474100";
    const U64M: &str = "18446744073709551615";
    const U64M1: &str = "18446744073709551616";
    let bases: Vec<String> = vec![
        "1.2.3".into(), "0.0.0".into(), "10.20.30".into(), "1.2.3-alpha.1".into(), "1.2.3+build.5".into(),
        "1.2.3-a-b.--.0a+001.-".into(), "1.0.0-0".into(), "1.2.3-rc.1+b".into(), "v1.2.3".into(), " 1.2.3 ".into(),
        format!("{}.{}.{}", MAXS, MAXS, MAXS), format!("1.2.3-{}.{}", U64M, MAXS1), "1.2.3-01.x-y".into(),
    ];
    let alphabet: Vec<Vec<u8>> = vec![
        b"0".to_vec(), b"1".to_vec(), b"9".to_vec(), b".".to_vec(), b"-".to_vec(), b"+".to_vec(), b"v".to_vec(), b"V".to_vec(),
        b"a".to_vec(), b"Z".to_vec(), b"x".to_vec(), b"*".to_vec(), b" ".to_vec(), b"\t".to_vec(), b"\n".to_vec(), b"_".to_vec(),
        "é".as_bytes().to_vec(), b"~".to_vec(), b"^".to_vec(), b"=".to_vec(), b"\0".to_vec(), "Ł".as_bytes().to_vec(),
    ];
    let mut all: Vec<Vec<u8>> = Vec::new();
    for b in &bases {
        let bb = b.as_bytes();
        all.push(bb.to_vec());
        for pos in 0..=bb.len() {
            for sym in &alphabet {
                let mut ins = bb[..pos].to_vec();
                ins.extend_from_slice(sym);
                ins.extend_from_slice(&bb[pos..]);
                all.push(ins);
                if pos < bb.len() {
                    let mut rep = bb[..pos].to_vec();
                    rep.extend_from_slice(sym);
                    rep.extend_from_slice(&bb[pos + 1..]);
                    all.push(rep);
                }
            }
            if pos < bb.len() {
                let mut del = bb[..pos].to_vec();
                del.extend_from_slice(&bb[pos + 1..]);
                all.push(del);
            }
        }
    }
    // numbers at and around the limits, in every position
    for big in [MAXS, MAXS1, U64M, U64M1, "9007199254740991", "0900719925474099", "99999999999999999999999999"] {
        for pos in 0..5 {
            let mut parts = ["1".to_string(), "2".to_string(), "3".to_string(), "4".to_string(), "5".to_string()];
            parts[pos] = big.to_string();
            let s = format!("{}.{}.{}-{}+{}", parts[0], parts[1], parts[2], parts[3], parts[4]);
            all.push(s.into_bytes());
            if pos < 3 {
                let s2 = format!("{}.{}.{}", parts[0], parts[1], parts[2]);
                all.push(s2.clone().into_bytes());
                all.push(format!("v{}", s2).into_bytes());
                all.push(format!("{}\n", s2).into_bytes());
                all.push(format!("x\n{}", s2).into_bytes());
            }
        }
    }
    // lengths at and around MAX_LENGTH, ending in 1-4 byte characters
    for total in [254usize, 255, 256, 257, 258, 300] {
        for tail in ["", "a", "é", "€", "😀", "-", ".", "+"] {
            let head = "1.2.3-";
            let fill = total.saturating_sub(head.len() + tail.len());
            all.push(format!("{}{}{}", head, "a".repeat(fill), tail).into_bytes());
            all.push(format!("{}{}{}", "x".repeat(total.saturating_sub(tail.len())), "", tail).into_bytes());
            all.push(format!("1.2.3+{}{}", "0".repeat(fill), tail).into_bytes());
        }
        all.push(format!("{}1.2.3", " ".repeat(total - 5)).into_bytes());
        all.push(format!("1.2.3{}", " ".repeat(total - 5)).into_bytes());
        all.push(format!("{}.2.3", "0".repeat(total - 4)).into_bytes());
    }
    let mut cnt = 0;
    if n >= all.len() {
        for s in &all {
            vtext_case(out, s);
            cnt += 1;
        }
    } else {
        // a seeded subset, every fifth of it drawn from the limit / length families at the end of the list
        for _ in 0..(n * 7 / 10) {
            let k = r.below(all.len() as u64) as usize;
            vtext_case(out, &all[k]);
            cnt += 1;
        }
        let tail_from = all.len().saturating_sub(400);
        for _ in 0..(n / 10) {
            let k = tail_from + r.below((all.len() - tail_from) as u64) as usize;
            vtext_case(out, &all[k]);
            cnt += 1;
        }
    }
    // random strings
    let soup: Vec<&str> = vec!["0", "1", "2", "9", ".", ".", "-", "+", "a", "b", "Z", "v", " ", "x", "é", "\n", "00", "10", "-0", ".0"];
    while cnt < n {
        let len = match r.below(4) {
            0 => r.below(8),
            1 => r.below(30),
            2 => r.below(120),
            _ => r.below(400),
        };
        let mut s = String::new();
        if r.chance(2, 3) {
            s.push_str(&version(r).to_string());
        }
        for _ in 0..len {
            let piece: &str = *r.pick(&soup[..]);
            s.push_str(piece);
        }
        vtext_case(out, s.as_bytes());
        cnt += 1;
    }
    cnt
}

fn vtuples<W: Write>(r: &mut Rng, n: usize, out: &mut W) -> usize {
    let types: [(&str, u64); 10] = [
        ("u8", u8::MAX as u64), ("i8", i8::MAX as u64), ("u16", u16::MAX as u64), ("i16", i16::MAX as u64),
        ("u32", u32::MAX as u64), ("i32", i32::MAX as u64), ("u64", MAX_SAFE_INTEGER), ("i64", MAX_SAFE_INTEGER),
        ("usize", MAX_SAFE_INTEGER), ("isize", MAX_SAFE_INTEGER),
    ];
    let mut cnt = 0;
    let mut emit = |out: &mut W, ty: &str, vals: &[u64]| {
        writeln!(out, "{}", json!({"op":"vtuple","ty":ty,"vals":vals.iter().map(|x| digits(*x)).collect::<Vec<_>>()})).unwrap();
    };
    let thorough = n > 30000;
    for (ty, max) in types.iter() {
        let max = *max;
        let grid: Vec<u64> = [0u64, 1, 2, 9, 10, 99, 100, 126, 127, 128, 255, 256, 65535, 65536, max - 1, max]
            .iter().cloned().filter(|x| *x <= max).collect();
        // per-position exhaustive for the 8-bit types
        if max <= 255 {
            for arity in [3usize, 4] {
                for pos in 0..arity {
                    for x in 0..=max {
                        let reps = if thorough { 6 } else { 2 };
                        for k in 0..reps {
                            let mut vals: Vec<u64> = (0..arity).map(|_| if k == 0 { 0 } else { *r.pick(&grid) }).collect();
                            vals[pos] = x;
                            emit(out, ty, &vals);
                            cnt += 1;
                        }
                    }
                }
            }
        }
        // full product over a boundary grid
        let small: Vec<u64> = [0u64, 1, 10, max / 2, max].iter().cloned().collect();
        for a in &small {
            for b in &small {
                for c in &small {
                    emit(out, ty, &[*a, *b, *c]);
                    cnt += 1;
                    for d in &small {
                        if thorough || r.chance(1, 3) {
                            emit(out, ty, &[*a, *b, *c, *d]);
                            cnt += 1;
                        }
                    }
                }
            }
        }
    }
    // random values, the same values through every type that can hold them
    while cnt < n {
        let arity = 3 + r.below(2) as usize;
        let cap = *r.pick(&[127u64, 255, 32767, 65535, 2147483647, 4294967295, MAX_SAFE_INTEGER]);
        let vals: Vec<u64> = (0..arity).map(|_| match r.below(3) { 0 => r.below(cap + 1), 1 => cap - r.below(3.min(cap)), _ => r.below(12) }).collect();
        for (ty, max) in types.iter() {
            if vals.iter().all(|x| x <= max) {
                emit(out, ty, &vals);
                cnt += 1;
            }
        }
    }
    cnt
}

pub fn generate<W: Write>(scenario: &str, seed: u64, n: usize, out: &mut W) -> usize {
    let mut h: u64 = 1469598103934665603;
    for b in scenario.bytes() {
        h = (h ^ b as u64).wrapping_mul(1099511628211);
    }
    let mut r = Rng(seed ^ h);
    match scenario {
        "ranges" => ranges(&mut r, n, out),
        "vorder" => vorder(&mut r, n, out),
        "vdiffs" => vdiffs(&mut r, n, out),
        "vtext" => vtext(&mut r, n, out),
        "vtuples" => vtuples(&mut r, n, out),
        _ => {
            eprintln!("unknown scenario {}", scenario);
            std::process::exit(2);
        }
    }
}
