//! Seeded case generators (inputs only - every expectation comes from the TLA+ specification).

use crate::enc::*;
use nodejs_semver::{Identifier, VerifSide, Version, MAX_SAFE_INTEGER};
use serde_json::{json, Value};
use std::io::Write;

pub struct Rng(pub u64);
impl Rng {
    pub fn next(&mut self) -> u64 {
        // splitmix64
        self.0 = self.0.wrapping_add(0x9E3779B97F4A7C15);
        let mut z = self.0;
        z = (z ^ (z >> 30)).wrapping_mul(0xBF58476D1CE4E5B9);
        z = (z ^ (z >> 27)).wrapping_mul(0x94D049BB133111EB);
        z ^ (z >> 31)
    }
    pub fn below(&mut self, n: u64) -> u64 {
        if n == 0 {
            0
        } else {
            self.next() % n
        }
    }
    pub fn chance(&mut self, num: u64, den: u64) -> bool {
        self.below(den) < num
    }
    pub fn pick<'a, T>(&mut self, xs: &'a [T]) -> &'a T {
        &xs[self.below(xs.len() as u64) as usize]
    }
}

// ---------------------------------------------------------------- building blocks
pub fn component(r: &mut Rng) -> u64 {
    match r.below(10) {
        0..=3 => r.below(3),
        4 => 9 + r.below(3),
        5 => 99 + r.below(3),
        6 => MAX_SAFE_INTEGER - r.below(2),
        7 => r.below(1000),
        8 => r.below(MAX_SAFE_INTEGER),
        _ => r.below(5),
    }
}

const ALNUM: &[&str] = &[
    "a", "b", "A", "B", "alpha", "beta", "rc", "a-", "-", "--", "a0", "0a", "a-b", "Z", "z", "x", "pre", "1a", "-1", "a1",
];

pub fn identifier(r: &mut Rng) -> Identifier {
    match r.below(10) {
        0..=2 => Identifier::Numeric(r.below(3)),
        3 => Identifier::Numeric(r.below(20)),
        4 => Identifier::Numeric(match r.below(4) {
            0 => u64::MAX,
            1 => u64::MAX - 1,
            2 => MAX_SAFE_INTEGER + 1,
            _ => r.next(),
        }),
        _ => Identifier::AlphaNumeric(r.pick(ALNUM).to_string()),
    }
}

pub fn idlist(r: &mut Rng, maxlen: u64) -> Vec<Identifier> {
    let n = 1 + r.below(maxlen);
    (0..n).map(|_| identifier(r)).collect()
}

pub fn version(r: &mut Rng) -> Version {
    let mut v = Version::from((component(r), component(r), component(r)));
    if r.chance(1, 2) {
        v.pre_release = idlist(r, 3);
    }
    if r.chance(1, 5) {
        v.build = idlist(r, 2);
    }
    v
}

/// A pool of versions around one tuple, rich in ties, immediate successors and `-0` bounds.
pub fn tie_pool(r: &mut Rng) -> Vec<Version> {
    let (ma, mi, pa) = (component(r), component(r), component(r).min(MAX_SAFE_INTEGER - 2));
    let tag = idlist(r, 2);
    let mut tag0 = tag.clone();
    tag0.push(Identifier::Numeric(0));
    let mk = |m: u64, n: u64, p: u64, pre: Vec<Identifier>| Version { major: m, minor: n, patch: p, pre_release: pre, build: vec![] };
    let mut pool = vec![
        mk(ma, mi, pa, tag.clone()),
        mk(ma, mi, pa, tag0),
        mk(ma, mi, pa, vec![]),
        mk(ma, mi, pa + 1, vec![Identifier::Numeric(0)]),
        mk(ma, mi, pa + 1, vec![]),
        mk(ma, mi, pa, vec![Identifier::Numeric(0)]),
    ];
    if ma < MAX_SAFE_INTEGER {
        pool.push(mk(ma + 1, 0, 0, vec![Identifier::Numeric(0)]));
        pool.push(mk(ma + 1, 0, 0, vec![]));
    }
    if r.chance(1, 2) {
        pool.push(mk(ma, mi, pa, idlist(r, 2)));
    }
    if r.chance(1, 3) {
        pool.push(mk(0, 0, 0, vec![Identifier::Numeric(0)]));
        pool.push(mk(0, 0, 0, vec![]));
    }
    if r.chance(1, 3) {
        pool.push(version(r));
    }
    pool
}

fn bound(r: &mut Rng, v: &Version) -> VerifSide {
    let mut v = v.clone();
    if r.chance(1, 12) {
        v.build = vec![Identifier::AlphaNumeric("b".into())];
    }
    Some((r.chance(1, 2), v))
}

pub fn interval(r: &mut Rng, pool: &[Version]) -> (VerifSide, VerifSide) {
    let a = r.pick(pool).clone();
    let b = r.pick(pool).clone();
    // ordering the two picks only makes valid intervals more frequent; it decides nothing
    let (lo, up) = if a <= b { (a, b) } else { (b, a) };
    match r.below(10) {
        0 => (None, bound(r, &up)),
        1 => (bound(r, &lo), None),
        2 => (Some((true, lo.clone())), Some((true, lo))),
        3 if r.chance(1, 4) => (None, None),
        _ => (bound(r, &lo), bound(r, &up)),
    }
}

pub fn range_struct(r: &mut Rng, pool: &[Version], maxalts: u64) -> Value {
    let n = 1 + r.below(maxalts);
    let ivs: Vec<(VerifSide, VerifSide)> = (0..n).map(|_| interval(r, pool)).collect();
    bounds_to_json(&ivs)
}

// ---------------------------------------------------------------- scenarios
fn ranges<W: Write>(r: &mut Rng, n: usize, out: &mut W) -> usize {
    for _ in 0..n {
        let pool = tie_pool(r);
        let a = range_struct(r, &pool, 3);
        let b = if r.chance(1, 3) { range_struct(r, &pool, 1) } else { range_struct(r, &pool, 3) };
        writeln!(out, "{}", json!({"op":"pair","A":a,"B":b})).unwrap();
    }
    n
}

pub fn generate<W: Write>(scenario: &str, seed: u64, n: usize, out: &mut W) -> usize {
    let mut h: u64 = 1469598103934665603;
    for b in scenario.bytes() {
        h = (h ^ b as u64).wrapping_mul(1099511628211);
    }
    let mut r = Rng(seed ^ h);
    match scenario {
        "ranges" => ranges(&mut r, n, out),
        _ => {
            eprintln!("unknown scenario {}", scenario);
            std::process::exit(2);
        }
    }
}
