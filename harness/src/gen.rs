//! Seeded case generators (inputs only - every expectation comes from the TLA+ specification).

use crate::enc::*;
use nodejs_semver::{Identifier, VerifSide, Version, MAX_SAFE_INTEGER};
use serde_json::{json, Value};
use std::io::Write;

pub struct Rng(pub u64);
impl Rng {
    pub fn next(&mut self) -> u64 {
        // splitmix64
        self.0 = self.0.wrapping_add(0x9E3779B97F4A7C15);
        let mut z = self.0;
        z = (z ^ (z >> 30)).wrapping_mul(0xBF58476D1CE4E5B9);
        z = (z ^ (z >> 27)).wrapping_mul(0x94D049BB133111EB);
        z ^ (z >> 31)
    }
    pub fn below(&mut self, n: u64) -> u64 {
        if n == 0 {
            0
        } else {
            self.next() % n
        }
    }
    pub fn chance(&mut self, num: u64, den: u64) -> bool {
        self.below(den) < num
    }
    pub fn pick<'a, T>(&mut self, xs: &'a [T]) -> &'a T {
        &xs[self.below(xs.len() as u64) as usize]
    }
}

// ---------------------------------------------------------------- building blocks
/// A number of at most `k` bits (1..=50): the edges of the top half of that bit length, or anything below it.
pub fn magnitude(r: &mut Rng, k: u64) -> u64 {
    // MAX_SAFE_INTEGER of the crate is 900719925474099, a 50-bit number
    let k = k.clamp(1, 50);
    let top = ((1u64 << k) - 1).min(MAX_SAFE_INTEGER);
    let half = 1u64 << (k - 1);
    match r.below(8) {
        0 => 0,
        1 => 1,
        2 => half - 1,
        3 => half,
        4 => (half + 1).min(top),
        5 => top,
        6 => half + r.below(top - half + 1),
        _ => r.below(top + 1),
    }
}

pub fn component(r: &mut Rng) -> u64 {
    match r.below(12) {
        0..=3 => r.below(3),
        4 => 9 + r.below(3),
        5 => 99 + r.below(3),
        6 => MAX_SAFE_INTEGER - r.below(2),
        7 => r.below(1000),
        8 => {
            if r.chance(1, 2) {
                r.below(MAX_SAFE_INTEGER)
            } else {
                // any bit length (a uniform draw is almost always 52-53 bits long)
                let k = 1 + r.below(50);
                magnitude(r, k)
            }
        }
        // powers of two where a narrowing cast would bite
        9 => *r.pick(&[255u64, 256, 32767, 32768, 65535, 65536, 2147483647, 2147483648, 4294967295, 4294967296, 4294967297,
                       99999999999999, 100000000000000, 281474976710656]),
        _ => r.below(5),
    }
}

const ALNUM: &[&str] = &[
    "a", "b", "A", "B", "alpha", "beta", "rc", "a-", "-", "--", "a0", "0a", "a-b", "Z", "z", "x", "pre", "1a", "-1", "a1",
    // look-alikes of wildcards, of the `v` prefix and of numbers; long identifiers
    "X", "x1", "xyz", "v", "V", "v1", "vv", "0x", "1e5", "10a01", "a--b", "---",
    "abcdefghijklmnopqrstuvwxyzABCDEFGHIJKLMNOPQRSTUVWXYZ0123456789-abcdefghijklmnopqrstuvwxyz",
];

pub fn identifier(r: &mut Rng) -> Identifier {
    match r.below(10) {
        0..=2 => Identifier::Numeric(r.below(3)),
        3 => Identifier::Numeric(r.below(20)),
        4 => Identifier::Numeric(match r.below(4) {
            0 => u64::MAX,
            1 => u64::MAX - 1,
            2 => MAX_SAFE_INTEGER + 1,
            _ => r.next(),
        }),
        _ => Identifier::AlphaNumeric(r.pick(ALNUM).to_string()),
    }
}

pub fn idlist(r: &mut Rng, maxlen: u64) -> Vec<Identifier> {
    let n = if r.chance(1, 25) { 5 + r.below(5) } else { 1 + r.below(maxlen) };
    (0..n).map(|_| identifier(r)).collect()
}

pub fn version(r: &mut Rng) -> Version {
    let mut v = Version::from((component(r), component(r), component(r)));
    if r.chance(1, 2) {
        v.pre_release = idlist(r, 3);
    }
    if r.chance(1, 5) {
        v.build = idlist(r, 2);
    }
    if r.chance(1, 20) && !v.pre_release.is_empty() {
        v.build = v.pre_release.clone();
    }
    if r.chance(1, 20) {
        v.patch = 10u64.pow(r.below(15) as u32);
    }
    v
}

/// A pool of versions around one tuple, rich in ties, immediate successors and `-0` bounds.
pub fn tie_pool(r: &mut Rng) -> Vec<Version> {
    let (mut ma, mut mi, mut pa) = (component(r), component(r), component(r).min(MAX_SAFE_INTEGER - 2));
    if r.chance(1, 10) {
        ma = pa;
        mi = pa;
    }
    // all three numbers within one bit length (keys packed into one integer go wrong in one such window)
    let windowed = r.chance(1, 4);
    if windowed {
        let k = 1 + r.below(50);
        ma = magnitude(r, k);
        mi = magnitude(r, k);
        pa = magnitude(r, k).min(MAX_SAFE_INTEGER - 2);
    }
    let tag = idlist(r, 2);
    let mut tag0 = tag.clone();
    tag0.push(Identifier::Numeric(0));
    let mk = |m: u64, n: u64, p: u64, pre: Vec<Identifier>| Version { major: m, minor: n, patch: p, pre_release: pre, build: vec![] };
    let mut pool = vec![
        mk(ma, mi, pa, tag.clone()),
        mk(ma, mi, pa, tag0),
        mk(ma, mi, pa, vec![]),
        mk(ma, mi, pa + 1, vec![Identifier::Numeric(0)]),
        mk(ma, mi, pa + 1, vec![]),
        mk(ma, mi, pa, vec![Identifier::Numeric(0)]),
    ];
    if ma < MAX_SAFE_INTEGER {
        pool.push(mk(ma + 1, 0, 0, vec![Identifier::Numeric(0)]));
        pool.push(mk(ma + 1, 0, 0, vec![]));
    }
    if (windowed || r.chance(1, 4)) && mi < MAX_SAFE_INTEGER {
        // the next minor: a carry out of the patch field
        pool.push(mk(ma, mi + 1, 0, vec![]));
        if r.chance(1, 2) {
            pool.push(mk(ma, mi + 1, 0, vec![Identifier::Numeric(0)]));
        }
    }
    if r.chance(1, 2) {
        pool.push(mk(ma, mi, pa, idlist(r, 2)));
    }
    if r.chance(1, 3) {
        pool.push(mk(0, 0, 0, vec![Identifier::Numeric(0)]));
        pool.push(mk(0, 0, 0, vec![]));
    }
    if r.chance(1, 3) {
        pool.push(version(r));
    }
    pool
}

fn bound(r: &mut Rng, v: &Version) -> VerifSide {
    let mut v = v.clone();
    if r.chance(1, 8) {
        // a small set of build suffixes, so that both bounds of an interval often carry the same one
        v.build = match r.below(3) {
            0 => vec![Identifier::AlphaNumeric("b".into())],
            1 => vec![Identifier::AlphaNumeric("b".into()), Identifier::Numeric(7)],
            _ => vec![Identifier::Numeric(0)],
        };
    }
    Some((r.chance(1, 2), v))
}

pub fn interval(r: &mut Rng, pool: &[Version]) -> (VerifSide, VerifSide) {
    let a = r.pick(pool).clone();
    let b = r.pick(pool).clone();
    // ordering the two picks only makes valid intervals more frequent; it decides nothing
    let (lo, up) = if a <= b { (a, b) } else { (b, a) };
    match r.below(10) {
        0 => (None, bound(r, &up)),
        1 => (bound(r, &lo), None),
        2 => (Some((true, lo.clone())), Some((true, lo))),
        3 if r.chance(1, 4) => (None, None),
        _ => (bound(r, &lo), bound(r, &up)),
    }
}

pub fn range_struct(r: &mut Rng, pool: &[Version], maxalts: u64) -> Value {
    let n = if maxalts > 5 { maxalts - r.below(3) } else { 1 + r.below(maxalts) };
    let ivs: Vec<(VerifSide, VerifSide)> = (0..n).map(|_| interval(r, pool)).collect();
    bounds_to_json(&ivs)
}

// ---------------------------------------------------------------- scenarios
fn ranges<W: Write>(r: &mut Rng, n: usize, out: &mut W) -> usize {
    for _ in 0..n {
        let pool = tie_pool(r);
        // mostly 1-3 alternatives; now and then many (size-dependent fast paths)
        let width = |r: &mut Rng| match r.below(32) { 0 => 20, 1 => 16, 2 | 3 => 9, 4..=6 => 5, _ => 3 };
        let wa = width(r);
        if r.chance(1, 12) {
            // B is A up to build metadata (and sometimes one bound kind): equal as sets of versions, whatever the builds
            let na = if wa > 5 { wa - r.below(3) } else { 1 + r.below(wa) };
            let ia: Vec<(VerifSide, VerifSide)> = (0..na).map(|_| interval(r, &pool)).collect();
            let rebuild = |r: &mut Rng, s: &VerifSide| -> VerifSide {
                s.as_ref().map(|(inc, v)| {
                    let mut w = v.clone();
                    w.build = match r.below(4) {
                        0 => vec![],
                        1 => vec![Identifier::AlphaNumeric("linux".into())],
                        2 => vec![Identifier::AlphaNumeric("darwin".into()), Identifier::Numeric(1)],
                        _ => vec![Identifier::Numeric(0)],
                    };
                    (*inc, w)
                })
            };
            let ib: Vec<(VerifSide, VerifSide)> = ia.iter().map(|(lo, up)| (rebuild(r, lo), rebuild(r, up))).collect();
            writeln!(out, "{}", json!({"op":"pair","A":bounds_to_json(&ia),"B":bounds_to_json(&ib)})).unwrap();
            continue;
        }
        let a = range_struct(r, &pool, wa);
        let wb = width(r);
        let b = if r.chance(1, 3) { range_struct(r, &pool, 1) } else { range_struct(r, &pool, wb) };
        writeln!(out, "{}", json!({"op":"pair","A":a,"B":b})).unwrap();
    }
    n
}


fn vjson(v: &Version) -> Value {
    ver_to_json(v)
}

/// near-identical identifiers: differ only in case / digits / hyphens
fn confusable_ids(r: &mut Rng) -> (Vec<Identifier>, Vec<Identifier>) {
    const FAM: &[&str] = &["a", "A", "a-", "a0", "a1", "a10", "a2", "-a", "aa", "aA", "Aa", "a--", "a-0", "0a", "00a"];
    let n = if r.chance(1, 6) { 5 + r.below(14) as usize } else { 1 + r.below(4) as usize };
    let mut x: Vec<Identifier> = (0..n).map(|_| identifier(r)).collect();
    let mut y = x.clone();
    // the difference sits anywhere, often at the very end of a long list
    let k = if r.chance(1, 3) { n - 1 } else { r.below(n as u64) as usize };
    match r.below(6) {
        5 => {
            // text identifiers with a long common prefix (comparison on a fixed-size prefix, a hash or a length goes
            // wrong here): the difference is one byte after 3..33 common bytes, or one is a proper prefix of the other
            let l = *r.pick(&[3usize, 4, 7, 8, 9, 15, 16, 17, 31, 32, 33]);
            // starts with a letter, so the identifier is textual whatever follows
            let stem: String = std::iter::once('s').chain((1..l).map(|_| *r.pick(&['s', 'n', 'a', 'p', 'A', 'z', '-', '0', '9']))).collect();
            let (ta, tb) = match r.below(4) {
                0 => ("1".to_string(), "2".to_string()),
                1 => ("a".to_string(), "b".to_string()),
                2 => (String::new(), "0".to_string()),
                _ => ("a".to_string(), "A".to_string()),
            };
            x[k] = Identifier::AlphaNumeric(format!("{}{}", stem, ta));
            y[k] = Identifier::AlphaNumeric(format!("{}{}", stem, tb));
        }
        4 => {
            // adjacent large numerics: equal as f64, different as integers
            let big = *r.pick(&[u64::MAX, u64::MAX - 1, 9007199254740993, 9007199254740992, 10000000000000000001, 1u64 << 63, (1u64 << 63) + 1]);
            x[k] = Identifier::Numeric(big);
            y[k] = Identifier::Numeric(if r.chance(1, 2) { big.wrapping_sub(1) } else { big.saturating_add(1) });
        }
        0 => {
            x[k] = Identifier::AlphaNumeric(r.pick(FAM).to_string());
            y[k] = Identifier::AlphaNumeric(r.pick(FAM).to_string());
        }
        1 => {
            let a = r.below(12);
            x[k] = Identifier::Numeric(a);
            y[k] = Identifier::Numeric(a * 10 + r.below(3));
        }
        2 => {
            y.truncate(k);
        }
        _ => {
            x[k] = Identifier::Numeric(r.below(30));
            y[k] = Identifier::AlphaNumeric(r.pick(FAM).to_string());
        }
    }
    (x, y)
}

fn vorder<W: Write>(r: &mut Rng, n: usize, out: &mut W) -> usize {
    let mut cnt = 0;
    while cnt < n {
        match r.below(13) {
            10..=12 => {
                // all numbers within one bit length, a higher field equal or one apart, lower fields anywhere in that
                // bit length (comparison through a packed / narrowed / floating key goes wrong in one such window)
                let k = 1 + r.below(50);
                let mut a = Version::from((magnitude(r, k), magnitude(r, k), magnitude(r, k)));
                let mut b = a.clone();
                let bump = |r: &mut Rng, x: u64| match r.below(3) {
                    0 => x,
                    1 => x.saturating_sub(1),
                    _ => (x + 1).min(MAX_SAFE_INTEGER),
                };
                match r.below(3) {
                    0 => {
                        b.major = bump(r, a.major);
                        b.minor = magnitude(r, k);
                        b.patch = magnitude(r, k);
                    }
                    1 => {
                        b.minor = bump(r, a.minor);
                        b.patch = magnitude(r, k);
                    }
                    _ => b.patch = bump(r, a.patch),
                }
                if r.chance(1, 4) {
                    a.pre_release = vec![Identifier::Numeric(magnitude(r, k))];
                    b.pre_release = vec![Identifier::Numeric(magnitude(r, k))];
                }
                writeln!(out, "{}", json!({"op":"vcmp","a":vjson(&a),"b":vjson(&b)})).unwrap();
            }
            0..=5 => {
                // a pair sharing most of its fields
                let mut a = version(r);
                let mut b = a.clone();
                match r.below(6) {
                    0 => b.major = component(r),
                    1 => b.minor = component(r),
                    2 => b.patch = component(r),
                    3 => {
                        let (x, y) = confusable_ids(r);
                        a.pre_release = x;
                        b.pre_release = y;
                    }
                    4 => {
                        b.pre_release = if r.chance(1, 2) { vec![] } else { idlist(r, 6) };
                    }
                    _ => {
                        b.build = idlist(r, 3);
                    }
                }
                if r.chance(1, 2) {
                    std::mem::swap(&mut a, &mut b);
                }
                writeln!(out, "{}", json!({"op":"vcmp","a":vjson(&a),"b":vjson(&b)})).unwrap();
            }
            6 => {
                let a = version(r);
                let b = version(r);
                writeln!(out, "{}", json!({"op":"vcmp","a":vjson(&a),"b":vjson(&b)})).unwrap();
            }
            _ => {
                // a list with duplicates, build-only variants and confusable tags
                let base = version(r);
                let len = r.below(13) as usize;
                let mut l = Vec::new();
                for _ in 0..len {
                    let mut v = base.clone();
                    match r.below(7) {
                        0 => v = version(r),
                        1 => v.build = idlist(r, 2),
                        2 => v.pre_release = confusable_ids(r).0,
                        3 => v.pre_release = vec![],
                        4 => v.patch = component(r),
                        5 => v.minor = component(r),
                        _ => {}
                    }
                    l.push(vjson(&v));
                }
                writeln!(out, "{}", json!({"op":"vsort","list":l})).unwrap();
            }
        }
        cnt += 1;
    }
    cnt
}

fn vdiffs<W: Write>(r: &mut Rng, n: usize, out: &mut W) -> usize {
    for _ in 0..n {
        let small = |r: &mut Rng| match r.below(5) {
            0 => 0,
            1 => 1,
            2 => 2,
            _ => component(r),
        };
        let mut a = Version::from((small(r), small(r), small(r)));
        if r.chance(1, 2) {
            a.pre_release = idlist(r, 3);
        }
        let mut b = a.clone();
        for f in 0..3 {
            if r.chance(1, 3) {
                let x = small(r);
                match f {
                    0 => b.major = x,
                    1 => b.minor = x,
                    _ => b.patch = x,
                }
            }
        }
        match r.below(5) {
            0 => b.pre_release = vec![],
            1 => b.pre_release = idlist(r, 3),
            2 => {
                // tags that differ only in confusable identifiers (case, digits, adjacent large numerics)
                let (x, y) = confusable_ids(r);
                a.pre_release = x;
                b.pre_release = y;
            }
            _ => {}
        }
        if r.chance(1, 4) {
            a.build = idlist(r, 2);
        }
        if r.chance(1, 4) {
            b.build = idlist(r, 2);
        }
        writeln!(out, "{}", json!({"op":"vdiff","a":vjson(&a),"b":vjson(&b)})).unwrap();
    }
    n
}

fn vtext_case<W: Write>(out: &mut W, s: &[u8]) {
    // only valid UTF-8 can be passed to the API
    if let Ok(t) = std::str::from_utf8(s) {
        writeln!(out, "{}", json!({"op":"vparse","text":bytes(t)})).unwrap();
    }
}

fn vtext<W: Write>(r: &mut Rng, n: usize, out: &mut W) -> usize {
    const MAXS: &str = "900719925474099";
    const MAXS1: &str = "900719925474100";
    const U64M: &str = "18446744073709551615";
    const U64M1: &str = "18446744073709551616";
    let bases: Vec<String> = vec![
        "1.2.3".into(), "0.0.0".into(), "10.20.30".into(), "1.2.3-alpha.1".into(), "1.2.3+build.5".into(),
        "1.2.3-a-b.--.0a+001.-".into(), "1.0.0-0".into(), "1.2.3-rc.1+b".into(), "v1.2.3".into(), " 1.2.3 ".into(),
        format!("{}.{}.{}", MAXS, MAXS, MAXS), format!("1.2.3-{}.{}", U64M, MAXS1), "1.2.3-01.x-y".into(),
    ];
    let alphabet: Vec<Vec<u8>> = vec![
        b"0".to_vec(), b"1".to_vec(), b"9".to_vec(), b".".to_vec(), b"-".to_vec(), b"+".to_vec(), b"v".to_vec(), b"V".to_vec(),
        b"a".to_vec(), b"Z".to_vec(), b"x".to_vec(), b"*".to_vec(), b" ".to_vec(), b"\t".to_vec(), b"\n".to_vec(), b"_".to_vec(),
        "é".as_bytes().to_vec(), b"~".to_vec(), b"^".to_vec(), b"=".to_vec(), b"\0".to_vec(), "Ł".as_bytes().to_vec(),
        // white space that is not a blank of the grammar: CR, VT, FF, NBSP, EM SPACE, BOM
        b"\r".to_vec(), b"\x0b".to_vec(), b"\x0c".to_vec(), "\u{a0}".as_bytes().to_vec(), "\u{2003}".as_bytes().to_vec(), "\u{feff}".as_bytes().to_vec(),
    ];
    let mut all: Vec<Vec<u8>> = Vec::new();
    for b in &bases {
        let bb = b.as_bytes();
        all.push(bb.to_vec());
        for pos in 0..=bb.len() {
            for sym in &alphabet {
                let mut ins = bb[..pos].to_vec();
                ins.extend_from_slice(sym);
                ins.extend_from_slice(&bb[pos..]);
                all.push(ins);
                if pos < bb.len() {
                    let mut rep = bb[..pos].to_vec();
                    rep.extend_from_slice(sym);
                    rep.extend_from_slice(&bb[pos + 1..]);
                    all.push(rep);
                }
            }
            if pos < bb.len() {
                let mut del = bb[..pos].to_vec();
                del.extend_from_slice(&bb[pos + 1..]);
                all.push(del);
            }
        }
    }
    // numbers at and around the limits, in every position
    for big in [MAXS, MAXS1, U64M, U64M1, "9007199254740991", "0900719925474099", "99999999999999999999999999"] {
        for pos in 0..5 {
            let mut parts = ["1".to_string(), "2".to_string(), "3".to_string(), "4".to_string(), "5".to_string()];
            parts[pos] = big.to_string();
            let s = format!("{}.{}.{}-{}+{}", parts[0], parts[1], parts[2], parts[3], parts[4]);
            all.push(s.into_bytes());
            if pos < 3 {
                let s2 = format!("{}.{}.{}", parts[0], parts[1], parts[2]);
                all.push(s2.clone().into_bytes());
                all.push(format!("v{}", s2).into_bytes());
                all.push(format!("V{}", s2).into_bytes());
                all.push(format!("v {}", s2).into_bytes());
                all.push(format!("v  {}", s2).into_bytes());
                all.push(format!("{}\n", s2).into_bytes());
                all.push(format!("x\n{}", s2).into_bytes());
            }
        }
    }
    // many identifiers in one tag (a 256-byte version can hold 125 of them)
    for cnt in [30usize, 63, 64, 65, 66, 100, 124, 125] {
        let ids = vec!["a"; cnt].join(".");
        all.push(format!("1.2.3-{}", ids).into_bytes());
        all.push(format!("1.2.3+{}", ids).into_bytes());
        let half = vec!["0"; cnt / 2].join(".");
        all.push(format!("1.2.3-{}+{}", half, half).into_bytes());
    }
    // digits-only identifiers of 20-25 digits (they overflow u64 by various factors: text identifiers)
    for lead in ["2", "25", "3", "30", "5", "9", "99", "18446744073709551", "1844674407370955161", "4"] {
        for extra in [0usize, 1, 2, 4] {
            let digits = format!("{}{}", lead, "0".repeat((20 + extra).saturating_sub(lead.len())));
            all.push(format!("1.0.0-{}", digits).into_bytes());
            all.push(format!("1.0.0-rc.1+{}.5", digits).into_bytes());
        }
    }
    for _ in 0..40 {
        let digits = format!("{}{}", 1 + r.below(9), (0..19 + r.below(6)).map(|_| char::from(b'0' + r.below(10) as u8)).collect::<String>());
        all.push(format!("1.0.0-{}", digits).into_bytes());
        all.push(format!("1.0.0-a.{}+{}", digits, digits).into_bytes());
    }
    // over-long, several lines, multi-byte characters between the last line start and the reported position
    for k in [1usize, 2, 60, 125, 130] {
        for pre in ["1.2.3\n", "1.2.3-a\nb\n", "\r\n\r\n1.2.3\r\n", "1.2.3\r\n1.2.4\r\n1.2.5\r\n"] {
            for total in [257usize, 258, 262, 300] {
                let body = "é".repeat(k);
                let fill = total.saturating_sub(pre.len() + body.len());
                all.push(format!("{}{}{}", pre, body, "a".repeat(fill)).into_bytes());
                all.push(format!("{}{}{}", pre, "9".repeat(fill), body).into_bytes());
            }
        }
    }
    // long runs of leading zeros (the value is small), in components and identifiers
    for z in [1usize, 2, 14, 15, 16, 17, 19, 20, 21, 40] {
        let zs = "0".repeat(z);
        all.push(format!("{}1.2.3", zs).into_bytes());
        all.push(format!("1.{}2.3", zs).into_bytes());
        all.push(format!("1.2.{}3", zs).into_bytes());
        all.push(format!("1.2.3-{}7", zs).into_bytes());
        all.push(format!("1.2.3-a.{}7.b+{}7", zs, zs).into_bytes());
        all.push(format!("{}.{}.{}", zs, zs, zs).into_bytes());
    }
    // lengths at and around MAX_LENGTH, ending in 1-4 byte characters
    for total in [254usize, 255, 256, 257, 258, 300] {
        for tail in ["", "a", "é", "€", "😀", "-", ".", "+"] {
            let head = "1.2.3-";
            let fill = total.saturating_sub(head.len() + tail.len());
            all.push(format!("{}{}{}", head, "a".repeat(fill), tail).into_bytes());
            all.push(format!("{}{}{}", "x".repeat(total.saturating_sub(tail.len())), "", tail).into_bytes());
            all.push(format!("1.2.3+{}{}", "0".repeat(fill), tail).into_bytes());
        }
        // over-long inputs with line breaks and multi-byte characters before the reported position (location())
        if total > 256 {
            for head in ["1.2.3-alpha\n", "\n\n1.2.3-", "1.2.3-é\nx\n", "1.2.3+b\r\n", "v1.2.3-a.b\n\n\n"] {
                let fill = total.saturating_sub(head.len());
                all.push(format!("{}{}", head, "b".repeat(fill)).into_bytes());
                let half = fill / 2;
                all.push(format!("{}{}\n{}", head, "b".repeat(half), "c".repeat(fill - half)).into_bytes());
            }
        }
        // prerelease written without its hyphen, at and around the limit (the printed form is one byte longer)
        all.push(format!("1.2.3{}", "a".repeat(total - 5)).into_bytes());
        all.push(format!("1.2.3a{}.b+c", "0".repeat(total - 10)).into_bytes());
        all.push(format!("{}1.2.3", " ".repeat(total - 5)).into_bytes());
        all.push(format!("1.2.3{}", " ".repeat(total - 5)).into_bytes());
        all.push(format!("{}.2.3", "0".repeat(total - 4)).into_bytes());
    }
    let mut cnt = 0;
    if n >= all.len() {
        for s in &all {
            vtext_case(out, s);
            cnt += 1;
        }
    } else {
        // a seeded subset, every fifth of it drawn from the limit / length families at the end of the list
        for _ in 0..(n * 7 / 10) {
            let k = r.below(all.len() as u64) as usize;
            vtext_case(out, &all[k]);
            cnt += 1;
        }
        let tail_from = all.len().saturating_sub(400);
        for _ in 0..(n / 10) {
            let k = tail_from + r.below((all.len() - tail_from) as u64) as usize;
            vtext_case(out, &all[k]);
            cnt += 1;
        }
    }
    // random strings
    let soup: Vec<&str> = vec!["0", "1", "2", "9", ".", ".", "-", "+", "a", "b", "Z", "v", " ", "x", "é", "\n", "00", "10", "-0", ".0"];
    while cnt < n {
        let len = match r.below(4) {
            0 => r.below(8),
            1 => r.below(30),
            2 => r.below(120),
            _ => r.below(400),
        };
        let mut s = String::new();
        if r.chance(2, 3) {
            s.push_str(&version(r).to_string());
        }
        for _ in 0..len {
            let piece: &str = *r.pick(&soup[..]);
            s.push_str(piece);
        }
        vtext_case(out, s.as_bytes());
        cnt += 1;
    }
    cnt
}

/// versions built from canonical identifiers (C12), within the limits a parseable version has
fn vbuilt<W: Write>(r: &mut Rng, n: usize, out: &mut W) -> usize {
    for _ in 0..n {
        let mut v = Version::from((component(r), component(r), component(r)));
        if r.chance(2, 3) {
            v.pre_release = idlist(r, 4);
        }
        if r.chance(1, 2) {
            v.build = idlist(r, 3);
        }
        if r.chance(1, 15) {
            // very many short identifiers (still within MAX_LENGTH when printed)
            let cnt = 40 + r.below(60) as usize;
            let l: Vec<Identifier> = (0..cnt).map(|k| if k % 3 == 0 { Identifier::Numeric(r.below(10)) } else { Identifier::AlphaNumeric("a".into()) }).collect();
            if r.chance(1, 2) { v.pre_release = l; v.build = vec![]; } else { v.build = l; v.pre_release = vec![]; }
            v.major = r.below(10); v.minor = r.below(10); v.patch = r.below(10);
        }
        writeln!(out, "{}", json!({"op":"vbuilt","v":ver_to_json(&v)})).unwrap();
    }
    n
}

fn vtuples<W: Write>(r: &mut Rng, n: usize, out: &mut W) -> usize {
    let types: [(&str, u64); 10] = [
        ("u8", u8::MAX as u64), ("i8", i8::MAX as u64), ("u16", u16::MAX as u64), ("i16", i16::MAX as u64),
        ("u32", u32::MAX as u64), ("i32", i32::MAX as u64), ("u64", MAX_SAFE_INTEGER), ("i64", MAX_SAFE_INTEGER),
        ("usize", MAX_SAFE_INTEGER), ("isize", MAX_SAFE_INTEGER),
    ];
    let mut cnt = 0;
    let mut emit = |out: &mut W, ty: &str, vals: &[u64]| {
        writeln!(out, "{}", json!({"op":"vtuple","ty":ty,"vals":vals.iter().map(|x| digits(*x)).collect::<Vec<_>>()})).unwrap();
    };
    let thorough = n > 30000;
    for (ty, max) in types.iter() {
        let max = *max;
        let grid: Vec<u64> = [0u64, 1, 2, 9, 10, 99, 100, 126, 127, 128, 255, 256, 65535, 65536, max - 1, max]
            .iter().cloned().filter(|x| *x <= max).collect();
        // per-position exhaustive for the 8-bit types
        if max <= 255 {
            for arity in [3usize, 4] {
                for pos in 0..arity {
                    for x in 0..=max {
                        let reps = if thorough { 6 } else { 2 };
                        for k in 0..reps {
                            let mut vals: Vec<u64> = (0..arity).map(|_| if k == 0 { 0 } else { *r.pick(&grid) }).collect();
                            vals[pos] = x;
                            emit(out, ty, &vals);
                            cnt += 1;
                        }
                    }
                }
            }
        }
        // full product over a boundary grid
        let small: Vec<u64> = [0u64, 1, 10, max / 2, max].iter().cloned().collect();
        for a in &small {
            for b in &small {
                for c in &small {
                    emit(out, ty, &[*a, *b, *c]);
                    cnt += 1;
                    for d in &small {
                        if thorough || r.chance(1, 3) {
                            emit(out, ty, &[*a, *b, *c, *d]);
                            cnt += 1;
                        }
                    }
                }
            }
        }
    }
    // random values, the same values through every type that can hold them
    while cnt < n {
        let arity = 3 + r.below(2) as usize;
        let cap = *r.pick(&[127u64, 255, 32767, 65535, 2147483647, 4294967295, MAX_SAFE_INTEGER]);
        let vals: Vec<u64> = (0..arity).map(|_| match r.below(3) { 0 => r.below(cap + 1), 1 => cap - r.below(3.min(cap)), _ => r.below(12) }).collect();
        for (ty, max) in types.iter() {
            if vals.iter().all(|x| x <= max) {
                emit(out, ty, &vals);
                cnt += 1;
            }
        }
    }
    cnt
}


// ---------------------------------------------------------------- range texts from syntax trees
// The tree is emitted in exactly the record shape of spec/RangeSyntax.tla; the text is rendered
// here and re-rendered by the specification (a mismatch is a tool error, not a verdict).

#[derive(Clone)]
pub struct PartialAst {
    v: bool,
    comps: [Value; 3],
    nums: [Option<u64>; 3],
    pre: Vec<String>,
    bld: Vec<String>,
    nohy: bool,
}

fn comp_json(r: &mut Rng, n: u64, zeros: bool) -> (Value, String) {
    let mut s = n.to_string();
    if zeros && r.chance(1, 2) {
        // one leading zero, or a long run of them (the value is what counts, not the number of digits)
        let k = match r.below(4) {
            0 => 1 + r.below(20) as usize,
            _ => 1,
        };
        s = format!("{}{}", "0".repeat(k), s);
    }
    (json!({"t":"n","d":s.bytes().map(|b| (b - b'0') as u64).collect::<Vec<_>>()}), s)
}

fn raw_ident(r: &mut Rng) -> String {
    match r.below(12) {
        0 | 1 => r.below(3).to_string(),
        2 => r.below(40).to_string(),
        3 => format!("0{}", r.below(10)),
        4 => match r.below(5) {
            0 => u64::MAX.to_string(),
            1 => "18446744073709551616".to_string(),
            2 => (MAX_SAFE_INTEGER + 1).to_string(),
            // digits-only identifiers that overflow u64 by various amounts: text, not numbers
            _ => format!("{}{}", 1 + r.below(9), (0..19 + r.below(5)).map(|_| char::from(b'0' + r.below(10) as u8)).collect::<String>()),
        },
        _ => r.pick(ALNUM).to_string(),
    }
}

impl PartialAst {
    fn render(&self, texts: &[String; 3]) -> String {
        let mut s = String::new();
        if self.v {
            s.push('v');
        }
        s.push_str(&texts[0]);
        if self.comps[1]["t"] != "abs" {
            s.push('.');
            s.push_str(&texts[1]);
            if self.comps[2]["t"] != "abs" {
                s.push('.');
                s.push_str(&texts[2]);
                if !self.pre.is_empty() {
                    if !self.nohy {
                        s.push('-');
                    }
                    s.push_str(&self.pre.join("."));
                }
                if !self.bld.is_empty() {
                    s.push('+');
                    s.push_str(&self.bld.join("."));
                }
            }
        }
        s
    }
    fn json(&self) -> Value {
        let raw = |l: &Vec<String>| l.iter().map(|x| bytes(x)).collect::<Vec<_>>();
        json!({"v":self.v,"M":self.comps[0],"m":self.comps[1],"p":self.comps[2],"pre":raw(&self.pre),"bld":raw(&self.bld),"nohy":self.nohy})
    }
}

fn small_component(r: &mut Rng, pool: &[u64]) -> u64 {
    if r.chance(3, 4) {
        *r.pick(pool)
    } else {
        component(r).min(MAX_SAFE_INTEGER)
    }
}

/// a partial and its text; `pool` makes comparators of one text talk about neighbouring tuples
fn partial_ast(r: &mut Rng, pool: &[u64], tag_pool: &[Vec<String>]) -> (PartialAst, String) {
    let zeros = r.chance(1, 10);
    let shape = r.below(20);
    // number of written components and where wildcards sit
    let ncomp = match shape {
        0..=1 => 1,
        2..=4 => 2,
        _ => 3,
    };
    let mut comps: [Value; 3] = [json!({"t":"abs"}), json!({"t":"abs"}), json!({"t":"abs"})];
    let mut texts: [String; 3] = [String::new(), String::new(), String::new()];
    let mut nums = [None, None, None];
    let mut wild = false;
    for i in 0..ncomp {
        let make_wild = if wild { r.chance(5, 6) } else { r.chance(1, 7) && (i > 0 || r.chance(1, 3)) };
        if make_wild {
            let c = *r.pick(&[b'x', b'X', b'*']);
            comps[i] = json!({"t":"x","c":c as u64});
            texts[i] = (c as char).to_string();
            wild = true;
        } else {
            let n = small_component(r, pool);
            let (j, t) = comp_json(r, n, zeros);
            comps[i] = j;
            texts[i] = t;
            nums[i] = Some(n);
        }
    }
    let mut pre = vec![];
    let mut bld = vec![];
    let mut nohy = false;
    if ncomp == 3 && !wild {
        if r.chance(2, 5) {
            pre = if r.chance(1, 2) && !tag_pool.is_empty() {
                r.pick(tag_pool).clone()
            } else {
                (0..1 + r.below(3)).map(|_| raw_ident(r)).collect()
            };
            if pre[0].as_bytes()[0].is_ascii_alphabetic() && r.chance(1, 6) {
                nohy = true;
            }
        }
        if r.chance(1, 8) {
            bld = (0..1 + r.below(2)).map(|_| raw_ident(r)).collect();
        }
    } else if ncomp == 3 && wild && (r.chance(1, 8) || (nums[2].is_some() && r.chance(1, 2))) {
        // `1.2.x-tag`, `1.x.3-tag`, `x.2.3-tag`: grammatical (the qualifier follows the third component whatever it
        // is); with a wildcard anywhere the tag is irrelevant
        pre = if r.chance(1, 2) && !tag_pool.is_empty() { r.pick(tag_pool).clone() } else { vec![r.pick(ALNUM).to_string()] };
    }
    let pa = PartialAst { v: r.chance(1, 8), comps, nums, pre, bld, nohy };
    let text = pa.render(&texts);
    (pa, text)
}

const GARBAGE: &[&str] = &["foo", "f", "oyo", "1.y", "~1.y", ">=a", "^b", "yf", "<f", "1.2.y"];
const OPS: &[&str] = &["", "", "=", "<", "<=", ">", ">=", "~", "~>", "^", "^", "~"];

fn neighbourhood(r: &mut Rng, partials: &[PartialAst], out: &mut Vec<Version>) {
    let mut push = |v: Version| {
        if out.len() < 110 && !out.iter().any(|w| w.major == v.major && w.minor == v.minor && w.patch == v.patch && w.pre_release == v.pre_release && w.build == v.build) {
            out.push(v);
        }
    };
    for pa in partials {
        let m0 = match pa.nums[0] {
            Some(x) => x,
            None => continue,
        };
        let (m1, m2) = (pa.nums[1].unwrap_or(0), pa.nums[2].unwrap_or(0));
        let tag: Vec<Identifier> = pa
            .pre
            .iter()
            .map(|s| s.parse::<u64>().map(Identifier::Numeric).unwrap_or_else(|_| Identifier::AlphaNumeric(s.clone())))
            .collect();
        let mut tuples = vec![(m0, m1, m2), (m0, m1, m2 + 1), (m0, m1 + 1, 0), (m0 + 1, 0, 0)];
        if m2 > 0 {
            tuples.push((m0, m1, m2 - 1));
        }
        if m1 > 0 {
            tuples.push((m0, m1 - 1, MAX_SAFE_INTEGER.min(m2 + 7)));
        }
        if m0 > 0 {
            tuples.push((m0 - 1, 3, 3));
        }
        for (a, b, c) in tuples {
            if a > MAX_SAFE_INTEGER || b > MAX_SAFE_INTEGER || c > MAX_SAFE_INTEGER {
                continue;
            }
            let base = Version::from((a, b, c));
            push(base.clone());
            let mut v0 = base.clone();
            v0.pre_release = vec![Identifier::Numeric(0)];
            push(v0);
            if !tag.is_empty() {
                let mut t1 = base.clone();
                t1.pre_release = tag.clone();
                push(t1.clone());
                let mut t2 = t1.clone();
                t2.pre_release.push(Identifier::Numeric(0));
                push(t2);
                if r.chance(1, 3) {
                    let mut t3 = t1.clone();
                    t3.build = vec![Identifier::AlphaNumeric("b".into()), Identifier::Numeric(7)];
                    push(t3);
                }
                if r.chance(1, 3) {
                    // same tag continued by identifiers whose numeric and textual orders differ
                    for last in [Identifier::Numeric(9), Identifier::Numeric(10), Identifier::Numeric(2), Identifier::AlphaNumeric("1a".into())] {
                        let mut t4 = t1.clone();
                        t4.pre_release.push(last);
                        push(t4);
                    }
                }
            }
            let mut ta = base.clone();
            ta.pre_release = vec![Identifier::AlphaNumeric(r.pick(&["a", "zz", "A", "rc"]).to_string())];
            push(ta);
        }
    }
}

/// one alternative: (json, text, partials, is_hyphen, has_valid)
fn alt_ast(r: &mut Rng, pool: &[u64], tag_pool: &[Vec<String>], allow_hyphen: bool, parts: &mut Vec<PartialAst>) -> (Value, String, bool) {
    if allow_hyphen && r.chance(1, 6) {
        let (lo, lt) = partial_ast(r, pool, tag_pool);
        let (hi, ht) = partial_ast(r, pool, tag_pool);
        let blanks = |r: &mut Rng| *r.pick(&[" ", " ", " ", "  ", "\t", "   ", " \t"]);
        let (ls, rs) = (blanks(r), blanks(r));
        let text = format!("{}{}-{}{}", lt, ls, rs, ht);
        let j = json!({"cs":[{"op":"hyphen","lo":lo.json(),"hi":hi.json(),"ls":bytes(ls),"rs":bytes(rs)}],"seps":[]});
        parts.push(lo);
        parts.push(hi);
        return (j, text, true);
    }
    let n = match r.below(20) {
        0..=7 => 1,
        8..=14 => 2,
        15 | 16 => 3,
        17 => 4,
        18 => 5,
        _ => if r.chance(1, 4) { 17 + r.below(24) } else { 7 },
    };
    let mut cs = Vec::new();
    let mut seps = Vec::new();
    let mut text = String::new();
    for i in 0..n {
        if i > 0 {
            let sep = match r.below(12) {
                0 => "  ",
                1 => "   ",
                2 => "\t",
                3 => "     ",
                4 => " \t",
                5 => "\t ",
                _ => " ",
            };
            seps.push(bytes(sep));
            text.push_str(sep);
        }
        if r.chance(1, 9) {
            let g = *r.pick(GARBAGE);
            cs.push(json!({"op":"garbage","txt":bytes(g)}));
            text.push_str(g);
        } else {
            let op = *r.pick(OPS);
            let sp = if op.is_empty() {
                ""
            } else {
                match r.below(10) {
                    0 => " ",
                    1 => "  ",
                    2 => "\t",
                    _ => "",
                }
            };
            let (pa, pt) = partial_ast(r, pool, tag_pool);
            cs.push(json!({"op":op,"sp":bytes(sp),"pa":pa.json()}));
            text.push_str(op);
            text.push_str(sp);
            text.push_str(&pt);
            parts.push(pa);
        }
    }
    (json!({"cs":cs,"seps":seps}), text, false)
}

pub fn range_ast(r: &mut Rng, max_alts: u64, allow_hyphen: bool) -> (Value, String, Vec<Version>) {
    // a small pool of numbers so that comparators of one text interact
    let base = component(r).min(MAX_SAFE_INTEGER - 3);
    let pool = [base, base + 1, base + 2, 0, 1];
    let tag_pool: Vec<Vec<String>> = (0..2).map(|_| (0..1 + r.below(2)).map(|_| raw_ident(r)).collect()).collect();
    let nalts = 1 + r.below(max_alts);
    let mut alts = Vec::new();
    let mut ors = Vec::new();
    let mut text = String::new();
    let mut parts = Vec::new();
    for i in 0..nalts {
        if i > 0 {
            let l = *r.pick(&["", "", " ", "  "]);
            let rr = *r.pick(&["", "", " ", "  "]);
            ors.push(json!({"l":bytes(l),"r":bytes(rr)}));
            text.push_str(l);
            text.push_str("||");
            text.push_str(rr);
        }
        let (j, t, _) = alt_ast(r, &pool, &tag_pool, allow_hyphen, &mut parts);
        alts.push(j);
        text.push_str(&t);
    }
    let mut vs = Vec::new();
    neighbourhood(r, &parts, &mut vs);
    (json!({"alts":alts,"ors":ors}), text, vs)
}

fn rconcat<W: Write>(r: &mut Rng, n: usize, out: &mut W) -> usize {
    for _ in 0..n {
        let base = component(r).min(MAX_SAFE_INTEGER - 3);
        let pool = [base, base + 1, base + 2, 0, 1];
        let tag_pool: Vec<Vec<String>> = (0..2).map(|_| (0..1 + r.below(2)).map(|_| raw_ident(r)).collect()).collect();
        let mut parts = Vec::new();
        let and = r.chance(3, 5);
        let (ta, tb) = if and {
            let (_, ta, _) = alt_ast(r, &pool, &tag_pool, false, &mut parts);
            let (_, tb, _) = alt_ast(r, &pool, &tag_pool, false, &mut parts);
            (ta, tb)
        } else {
            // now and then both sides are long (1-60 kB, every order of magnitude): `a || b` must still parse when a and b do
            let long = if r.chance(1, 40) { *r.pick(&[40u64, 80, 150, 300, 600, 1200]) } else { 0 };
            let mut mk = |r: &mut Rng, parts: &mut Vec<PartialAst>| {
                let n = if long > 0 { long + r.below(long / 2) } else { 1 + r.below(2) };
                let mut t = String::new();
                for i in 0..n {
                    if i > 0 {
                        t.push_str("||");
                    }
                    let (_, x, _) = alt_ast(r, &pool, &tag_pool, true, parts);
                    t.push_str(&x);
                }
                t
            };
            let a = mk(r, &mut parts);
            let b = mk(r, &mut parts);
            (a, b)
        };
        let mut vs = Vec::new();
        neighbourhood(r, &parts, &mut vs);
        writeln!(out, "{}", json!({"op":"concat","kind": if and {"and"} else {"or"},"a":bytes(&ta),"b":bytes(&tb),
            "vs":vs.iter().map(ver_to_json).collect::<Vec<_>>()})).unwrap();
    }
    n
}

fn sessions<W: Write>(r: &mut Rng, n: usize, out: &mut W) -> usize {
    for _ in 0..n {
        // three parsed leaves sharing a small pool of numbers and tags, so that they overlap, touch and nest
        let base = component(r).min(MAX_SAFE_INTEGER - 3);
        let pool = [base, base + 1, base + 2, 0, 1];
        let tag_pool: Vec<Vec<String>> = (0..2).map(|_| (0..1 + r.below(2)).map(|_| raw_ident(r)).collect()).collect();
        let mut steps: Vec<Value> = Vec::new();
        for reg in 1..=3 {
            let mut parts = Vec::new();
            let nalts = 1 + r.below(2);
            let mut text = String::new();
            for i in 0..nalts {
                if i > 0 {
                    text.push_str(" || ");
                }
                let (_, t, _) = alt_ast(r, &pool, &tag_pool, true, &mut parts);
                text.push_str(&t);
            }
            steps.push(json!({"c":"rparse","dst":reg,"text":bytes(&text)}));
        }
        let (a, b, c) = match r.below(6) {
            0 => (1, 2, 3),
            1 => (2, 1, 3),
            2 => (3, 2, 1),
            3 => (1, 3, 2),
            4 => (2, 3, 1),
            _ => (3, 1, 2),
        };
        let op = |c: &str, d: u64, x: u64, y: u64| json!({"c":c,"dst":d,"a":x,"b":y,"nilok":true});
        let eq = |l: u64, rr: u64| json!({"c":"ident","kind":"eq","l":l,"r":rr});
        let empty = |l: u64| json!({"c":"ident","kind":"empty","l":l,"r":l});
        let mut results: Vec<u64> = Vec::new();
        match r.below(7) {
            0 => {
                steps.extend([op("isect", 4, a, b), op("isect", 5, b, a), eq(4, 5)]);
                results.extend([4, 5]);
            }
            1 => {
                steps.extend([op("isect", 4, a, a), eq(4, a), op("diff", 5, a, a), empty(5)]);
                results.extend([4]);
            }
            2 => {
                steps.extend([op("diff", 4, a, b), op("isect", 5, 4, b), empty(5)]);
                results.extend([4]);
            }
            3 => {
                // A is the disjoint union of A∩B and A∖B
                steps.extend([op("isect", 4, a, b), op("diff", 5, a, b), op("isect", 6, 4, 5), empty(6),
                              op("diff", 7, a, 4), eq(7, 5), op("diff", 8, a, 5), eq(8, 4)]);
                results.extend([4, 5, 7, 8]);
            }
            4 => {
                steps.extend([op("diff", 4, a, b), op("diff", 5, a, 4), op("isect", 6, a, b), eq(5, 6)]);
                results.extend([4, 5, 6]);
            }
            5 => {
                steps.extend([op("isect", 4, a, b), op("isect", 5, 4, c), op("isect", 6, b, c), op("isect", 7, a, 6), eq(5, 7)]);
                results.extend([4, 5, 6, 7]);
            }
            _ => {
                // a random chain: results fed back as operands
                let mut defined = vec![1u64, 2, 3];
                for d in 4..8u64 {
                    let x = *r.pick(&defined);
                    let y = *r.pick(&defined);
                    steps.push(op(if r.chance(1, 2) { "isect" } else { "diff" }, d, x, y));
                    defined.push(d);
                    results.push(d);
                }
            }
        }
        for d in results {
            steps.push(json!({"c":"print","dst":9,"a":d}));
            if r.chance(1, 3) {
                steps.push(json!({"c":"minv","a":d}));
            }
        }
        writeln!(out, "{}", json!({"op":"steps","steps":steps})).unwrap();
    }
    n
}

fn soup<W: Write>(r: &mut Rng, n: usize, out: &mut W) -> usize {
    const TOK: &[&str] = &[
        "0", "1", "2", "9", "10", "900719925474099", "900719925474100", "18446744073709551615", "18446744073709551616",
        ".", ".", "-", "+", "*", "x", "X", "v", "^", "~", "~>", ">", "<", ">=", "<=", "=", "|", "||", " ", " ", "\t", "a", "-a", "-0",
        "é", " - ", "1.2.3", "\n", "\0", "😀", "-rc.1", "+b", ".x", ".*", "1.x", "foo",
        "\r", "\x0b", "\x0c", "\u{a0}", "\u{2003}", "\u{feff}", "\u{2028}",
    ];
    let emit = |out: &mut W, t: &str| writeln!(out, "{}", json!({"op":"soup","text":bytes(t)})).unwrap();
    let mut cnt = 0;
    // overflow sites: every operator form on numbers at the limit
    let lim = ["900719925474099", "900719925474098", "900719925474100", "18446744073709551615"];
    for a in lim {
        for form in [
            "{}", ">{}", ">={}", "<{}", "<={}", "={}", "^{}", "~{}", "~>{}", "{}.x", "1.{}", "^1.{}", "~1.{}", ">1.{}", "<=1.{}", "^0.{}", "^0.0.{}",
            "1.2.{}", "^0.0.{}-a", "{}.{}.{}", "^{}.{}.{}", "~{}.{}", ">{}.{}", "1 - {}", "{} - {}", "1.{} - 2", "1 - 1.{}", ">{} <{}", "^{} || ~{}",
            "1.2.3-{}", ">1.2.3-{}", "<1.2.3-{}.0",
        ] {
            emit(out, &form.replace("{}", a));
            cnt += 1;
        }
    }
    // lengths around MAX_LENGTH, ending in multi-byte characters
    for total in [255usize, 256, 257, 258, 1024] {
        for tail in ["", "é", "€", "😀"] {
            for head in ["1.2.3-", ">=1.2.3-", "", "1.2.3 || ", "^"] {
                let fill = total.saturating_sub(head.len() + tail.len());
                emit(out, &format!("{}{}{}", head, "a".repeat(fill), tail));
                emit(out, &format!("{}{}{}", head, "1".repeat(fill), tail));
                cnt += 2;
            }
        }
    }
    while cnt < n {
        let mut t = String::new();
        match r.below(4) {
            0 => {
                let (_, text, _) = range_ast(r, 3, true);
                t = text;
                // damage it a little
                for _ in 0..r.below(3) {
                    let pos = r.below(t.len() as u64 + 1) as usize;
                    if t.is_char_boundary(pos) {
                        { let tk: &str = *r.pick(TOK); t.insert_str(pos, tk); }
                    }
                }
            }
            1 => {
                t = version(r).to_string();
                for _ in 0..r.below(3) {
                    let pos = r.below(t.len() as u64 + 1) as usize;
                    if t.is_char_boundary(pos) {
                        { let tk: &str = *r.pick(TOK); t.insert_str(pos, tk); }
                    }
                }
            }
            _ => {
                for _ in 0..(1 + r.below(14)) {
                    { let tk: &str = *r.pick(TOK); t.push_str(tk); }
                }
            }
        }
        emit(out, &t);
        cnt += 1;
    }
    cnt
}

fn timing<W: Write>(_r: &mut Rng, n: usize, out: &mut W) -> usize {
    // n is the smallest size in bytes; each unit is run at n, 2n, 4n, 8n
    let units = ["1", "1.", "1.2.3 ", ">=1.2.3 ", "1.2.3||", " ", "x", "^1.2.3 ", "1.2.3 - 2.0.0 ", "foo ", "-", "||", "1.2.3-a.b.c.d ", ">", "v", "é",
                 "~>", "<=1 ", "1.2.3+b ", "* ", "\t", ">=1.2.3 <2.0.0 || ", "900719925474099.", "0",
                 // pairwise different pieces (a running counter replaces {i})
                 "1.2.{i}||", ">={i}.0.0 ", "1.2.3-a.{i} ", "{i}.x || ", "^{i}.{i}.{i} ", "1.{i}.0 - 2.{i}.0||", "foo{i} ", "<{i} >{i}||"];
    let mut cnt = 0;
    for u in units {
        writeln!(out, "{}", json!({"op":"timing","parser":"range","unit":bytes(u),"n":n as u64})).unwrap();
        cnt += 1;
    }
    // one long token: a fixed prefix followed by the repeated unit
    for (pre, u) in [("1.2.3-", "a"), (">=1.2.3-", "a."), ("1.2.3+", "b."), ("1.2.3-", "-"), ("^1.2.3-", "0."), ("1.2.3-a+", "+"), ("1.2.3 - 2.0.0-", "a"),
                     ("<", "1"), ("1.", "0"), ("~>", " "), ("1.2.3||", "|"), ("v", "v"), ("1.2.3-a", ".a-")] {
        writeln!(out, "{}", json!({"op":"timing","parser":"range","prefix":bytes(pre),"unit":bytes(u),"n":n as u64})).unwrap();
        cnt += 1;
    }
    for u in ["1", "1.2.3-a.", " ", "v", "1.2.3+b."] {
        writeln!(out, "{}", json!({"op":"timing","parser":"version","unit":bytes(u),"n":n as u64})).unwrap();
        cnt += 1;
    }
    // every operation between a range with tens of thousands of alternatives and a small one, both ways
    // (depth- or size-dependent failures of the set operations: recursion over the alternatives, caps, quadratic sweeps)
    for (u, pieces) in [("2.0.{i}", 120_000u64), (">=1.{i}.0 <1.{i}.5", 40_000), ("{i}.x", 60_000), ("1.0.0-{i}", 120_000), ("<0.0.{i}", 30_000)] {
        let small: Vec<Value> = ["1.0.0", ">=0.0.0", "<3.0.0 || >7.0.0", "2.0.7", "1.0.0-5 || 1.5.2"].iter().map(|t| bytes(t)).collect();
        writeln!(out, "{}", json!({"op":"deepops","unit":bytes(u),"pieces":pieces,"small":small})).unwrap();
        cnt += 1;
    }
    // two comparators whose tags have up to 400 000 identifiers, on the same tuple (recursion per identifier in a comparison)
    for (id, k) in [("0", 400_000u64), ("a", 100_000), ("18446744073709551615", 30_000)] {
        writeln!(out, "{}", json!({"op":"deeptags","id":bytes(id),"n":k})).unwrap();
        cnt += 1;
    }
    cnt
}

/// texts without any valid comparator (C17: NoValidRanges; multi-line and multi-byte for location())
fn rgarbage<W: Write>(r: &mut Rng, n: usize, out: &mut W) -> usize {
    const G: &[&str] = &["foo", "1.y", "é", "fo-é", "1.2.3.4", "1..2", ">=", "^", "~", "<>1", "=>1", "1.2.3-", ".", "a\nb", "\n", "€uro", "😀",
                         ">=a", "~1.y", "^b", "1.2.y", "900719925474100", ">900719925474100.1", "x.y", "1.2.3-é", "v", "=", "<"];
    for _ in 0..n {
        let nalts = 1 + r.below(3);
        let mut alts = Vec::new();
        let mut ors = Vec::new();
        let mut text = String::new();
        for i in 0..nalts {
            if i > 0 {
                let l = *r.pick(&["", " ", "  "]);
                let rr = *r.pick(&["", " ", "  "]);
                ors.push(json!({"l":bytes(l),"r":bytes(rr)}));
                text.push_str(l);
                text.push_str("||");
                text.push_str(rr);
            }
            let k = 1 + r.below(3);
            let mut cs = Vec::new();
            let mut seps = Vec::new();
            for j in 0..k {
                if j > 0 {
                    let sep = *r.pick(&[" ", "  ", "\t"]);
                    seps.push(bytes(sep));
                    text.push_str(sep);
                }
                let g: &str = *r.pick(G);
                cs.push(json!({"op":"garbage","txt":bytes(g)}));
                text.push_str(g);
            }
            alts.push(json!({"cs":cs,"seps":seps}));
        }
        match r.below(32) {
            // nothing but blanks, or nothing at all
            30 | 31 => {
                let text = *r.pick(&["", " ", "  ", "\t", " \t", "\t \t ", "          "]);
                writeln!(out, "{}", json!({"op":"rparse","dst":1,"text":bytes(text),"vs":[]})).unwrap();
            }
            // surrounded by blanks (no syntax tree: only the text-level clauses apply to the recorded error)
            0..=4 => {
                let l = *r.pick(&["", " ", "  ", "\t", " \t "]);
                let t = *r.pick(&["", " ", "  ", "\t", "\n"]);
                let text = format!("{}{}{}", l, text, if l.is_empty() && t.is_empty() { " " } else { t });
                writeln!(out, "{}", json!({"op":"rparse","dst":1,"text":bytes(&text),"vs":[]})).unwrap();
            }
            // thousands of bytes of garbage (a truncated or re-allocated copy of the input shows up in the error)
            5 => {
                let g: &str = *r.pick(G);
                let sep = *r.pick(&[" ", "  ", " || ", "||"]);
                let reps = *r.pick(&[600usize, 1100, 1500, 4200]);
                let mut long = String::new();
                for i in 0..reps {
                    if i > 0 {
                        long.push_str(sep);
                    }
                    long.push_str(g);
                }
                writeln!(out, "{}", json!({"op":"rparse","dst":1,"text":bytes(&long),"vs":[]})).unwrap();
            }
            _ => {
                writeln!(out, "{}", json!({"op":"rparse","dst":1,"text":bytes(&text),"ast":{"alts":alts,"ors":ors},"vs":[]})).unwrap();
            }
        }
    }
    n
}

/// C11 on derived ranges: parse a and b, subtract both ways, minimise (bounds like `>1.MAX.MAX` only arise this way)
fn rdiffmin<W: Write>(r: &mut Rng, n: usize, out: &mut W) -> usize {
    for _ in 0..n {
        let base = component(r).min(MAX_SAFE_INTEGER - 3);
        let pool = [base, base + 1, base + 2, 0, 1];
        let tag_pool: Vec<Vec<String>> = (0..2).map(|_| (0..1 + r.below(2)).map(|_| raw_ident(r)).collect()).collect();
        let mut mk = |r: &mut Rng| -> String {
            if r.chance(1, 3) {
                // upper-bounded forms whose flipped bound sits at MAX_SAFE_INTEGER components
                let m = *r.pick(&pool);
                match r.below(4) {
                    0 => format!("<={}", m),
                    1 => format!("<={}.{}", m, r.pick(&pool)),
                    2 => format!("<{}.{}", m, r.pick(&pool)),
                    _ => format!("<={}.{}.{}", m, r.pick(&pool), MAX_SAFE_INTEGER),
                }
            } else {
                let mut parts = Vec::new();
                let nalts = 1 + r.below(2);
                let mut t = String::new();
                for i in 0..nalts {
                    if i > 0 {
                        t.push_str("||");
                    }
                    let (_, x, _) = alt_ast(r, &pool, &tag_pool, true, &mut parts);
                    t.push_str(&x);
                }
                t
            }
        };
        let a = mk(r);
        let b = mk(r);
        let op = |c: &str, d: u64, x: u64, y: u64| json!({"c":c,"dst":d,"a":x,"b":y,"nilok":true});
        let steps = vec![
            json!({"c":"rparse","dst":1,"text":bytes(&a)}), json!({"c":"rparse","dst":2,"text":bytes(&b)}),
            json!({"c":"minv","a":1}), json!({"c":"minv","a":2}),
            op("diff", 3, 1, 2), json!({"c":"minv","a":3}), op("diff", 4, 2, 1), json!({"c":"minv","a":4}),
            op("isect", 5, 1, 2), json!({"c":"minv","a":5}), op("diff", 6, 3, 4), json!({"c":"minv","a":6}),
        ];
        writeln!(out, "{}", json!({"op":"steps","steps":steps})).unwrap();
    }
    n
}

/// The literals of the repository's own tests (corpus/range_texts.txt, extracted once from src/*.rs): every text
/// through both parsers with the follow-up calls, and pairs of them through the set operations.
fn corpus<W: Write>(r: &mut Rng, n: usize, out: &mut W) -> usize {
    let texts: Vec<String> = include_str!("../../corpus/range_texts.txt").lines().map(|l| l.replace("\\t", "\t")).collect();
    let mut cnt = 0;
    for t in &texts {
        writeln!(out, "{}", json!({"op":"steps","steps":[
            {"c":"rparse","dst":1,"text":bytes(t)}, {"c":"minv","a":1}, {"c":"sat","a":1}, {"c":"print","dst":2,"a":1},
            {"c":"vparse","text":bytes(t)}]})).unwrap();
        cnt += 1;
    }
    for _ in 0..n {
        let a = r.pick(&texts).clone();
        let b = r.pick(&texts).clone();
        let op = |c: &str, d: u64, x: u64, y: u64| json!({"c":c,"dst":d,"a":x,"b":y,"nilok":true});
        writeln!(out, "{}", json!({"op":"steps","steps":[
            {"c":"rparse","dst":1,"text":bytes(&a)}, {"c":"rparse","dst":2,"text":bytes(&b)},
            op("isect", 3, 1, 2), op("isect", 4, 2, 1), op("diff", 5, 1, 2), op("diff", 6, 2, 1),
            {"c":"any","a":1,"b":2}, {"c":"all","a":1,"b":2}, {"c":"all","a":2,"b":1},
            {"c":"minv","a":3}, {"c":"minv","a":5}, {"c":"print","dst":7,"a":3}, {"c":"print","dst":8,"a":5}, {"c":"print","dst":8,"a":6},
            {"c":"ident","kind":"eq","l":3,"r":4}]})).unwrap();
        cnt += 1;
    }
    cnt
}

fn rtext<W: Write>(r: &mut Rng, n: usize, out: &mut W) -> usize {
    for _ in 0..n {
        // now and then many alternatives (size-dependent fast paths: sorting, bisection, caps)
        let max_alts = match r.below(60) {
            0 => 40,
            1 => 20,
            2 => 12,
            3..=7 => 7,
            _ => 3,
        };
        let (ast, text, vs) = range_ast(r, max_alts, true);
        writeln!(out, "{}", json!({"op":"rparse","dst":1,"text":bytes(&text),"ast":ast,
            "vs":vs.iter().map(ver_to_json).collect::<Vec<_>>()})).unwrap();
    }
    n
}

/// operands with many alternatives (8-24) spread over a wider pool, against small and large partners:
/// exercises size-dependent paths (sorting, bisection, sweeps, de-duplication)
fn bigranges<W: Write>(r: &mut Rng, n: usize, out: &mut W) -> usize {
    for _ in 0..n {
        let mut pool = tie_pool(r);
        for _ in 0..(1 + r.below(3)) {
            pool.extend(tie_pool(r));
        }
        let big = |r: &mut Rng, pool: &[Version], cap: u64| {
            let k = (*r.pick(&[8u64, 9, 12, 16, 17, 24])).min(cap);
            let ivs: Vec<(VerifSide, VerifSide)> = (0..k).map(|_| interval(r, pool)).collect();
            bounds_to_json(&ivs)
        };
        let small = |r: &mut Rng, pool: &[Version]| range_struct(r, pool, 2);
        // two large operands stay moderate (their intersection has up to |A| x |B| alternatives)
        let (a, b) = match r.below(5) {
            0 | 1 => (small(r, &pool), big(r, &pool, 24)),
            2 | 3 => (big(r, &pool, 24), small(r, &pool)),
            _ => (big(r, &pool, 9), big(r, &pool, 9)),
        };
        writeln!(out, "{}", json!({"op":"pair","A":a,"B":b})).unwrap();
    }
    n
}

/// operands with 33-100 alternatives (beyond every size-dependent threshold a fast path is likely to use: 32, 64,
/// |A|x|B| > 1024): disjoint per-major blocks in ascending / descending / shuffled order, or nested one-sided
/// intervals that all overlap (so that the result itself has more than a thousand alternatives)
fn hugeranges<W: Write>(r: &mut Rng, n: usize, out: &mut W) -> usize {
    let mk = |m: u64, n: u64, p: u64, pre: Vec<Identifier>| Version { major: m, minor: n, patch: p, pre_release: pre, build: vec![] };
    let n0 = || vec![Identifier::Numeric(0)];
    for case_no in 0..n as u64 {
        let base = r.below(3);
        let blocks = |r: &mut Rng, k: u64, off: u64| -> Vec<(VerifSide, VerifSide)> {
            let mut ivs: Vec<(VerifSide, VerifSide)> = (0..k)
                .map(|i| {
                    let m = base + off + i;
                    match r.below(6) {
                        0 => (Some((true, mk(m, 0, 0, vec![]))), Some((true, mk(m, 0, 0, vec![])))),
                        1 => (Some((true, mk(m, 1, 0, vec![]))), Some((true, mk(m, 5, 0, vec![])))),
                        2 => (Some((true, mk(m, 0, 0, vec![Identifier::AlphaNumeric("a".into())]))), Some((false, mk(m, 0, 0, vec![])))),
                        _ => (Some((true, mk(m, 0, 0, vec![]))), Some((false, mk(m + 1, 0, 0, n0())))),
                    }
                })
                .collect();
            // ascending / descending / shuffled, in turn
            match (case_no / 8 + off) % 3 {
                0 => {}
                1 => ivs.reverse(),
                _ => {
                    for i in (1..ivs.len()).rev() {
                        let j = r.below(i as u64 + 1) as usize;
                        ivs.swap(i, j);
                    }
                }
            }
            ivs
        };
        let nested_lower = |r: &mut Rng, k: u64| -> Vec<(VerifSide, VerifSide)> {
            (0..k).map(|i| (Some((r.chance(1, 2), mk(base + i, 0, 0, vec![]))), None)).collect()
        };
        let nested_upper = |r: &mut Rng, k: u64| -> Vec<(VerifSide, VerifSide)> {
            (0..k).map(|i| (None, Some((r.chance(1, 2), mk(base + 20 + i, 0, 0, vec![]))))).collect()
        };
        // every shape in every run: shapes in turn, sizes in turn
        let k = [33u64, 70, 40, 100, 48, 64][((case_no / 8 + case_no) % 6) as usize];
        let (a, b) = match case_no % 8 {
            // huge against one or two intervals somewhere inside
            0..=2 => {
                let a = blocks(r, k, 0);
                let m = base + r.below(k);
                let mut b = vec![(Some((true, mk(m, 2, 0, vec![]))), Some((r.chance(1, 2), mk(m + r.below(3), 3, 0, vec![]))))];
                if r.chance(1, 2) {
                    let m2 = base + r.below(k);
                    b.push((Some((true, mk(m2, 0, 0, vec![]))), Some((true, mk(m2, 0, 0, vec![])))));
                }
                if r.chance(1, 2) { (a, b) } else { (b, a) }
            }
            // huge against itself / against a shifted copy
            3 => {
                let a = blocks(r, k.min(48), 0);
                (a.clone(), a)
            }
            4 | 5 => {
                let (k2, off) = (*r.pick(&[33u64, 40]), r.below(5));
                (blocks(r, k.min(48), 0), blocks(r, k2, off))
            }
            // every pair overlaps: the result has |A| x |B| alternatives
            6 => {
                let (k1, k2) = (*r.pick(&[33u64, 40]), *r.pick(&[33u64, 40]));
                (nested_lower(r, k1), nested_upper(r, k2))
            }
            _ => (nested_lower(r, k.min(48)), blocks(r, 33, 10)),
        };
        writeln!(out, "{}", json!({"op":"pair","A":bounds_to_json(&a),"B":bounds_to_json(&b)})).unwrap();
    }
    n
}

pub fn generate<W: Write>(scenario: &str, seed: u64, n: usize, out: &mut W) -> usize {
    let mut h: u64 = 1469598103934665603;
    for b in scenario.bytes() {
        h = (h ^ b as u64).wrapping_mul(1099511628211);
    }
    let mut r = Rng(seed ^ h);
    match scenario {
        "ranges" => ranges(&mut r, n, out),
        "bigranges" => bigranges(&mut r, n, out),
        "hugeranges" => hugeranges(&mut r, n, out),
        "vorder" => vorder(&mut r, n, out),
        "vdiffs" => vdiffs(&mut r, n, out),
        "vtext" => vtext(&mut r, n, out),
        "vtuples" => vtuples(&mut r, n, out),
        "vbuilt" => vbuilt(&mut r, n, out),
        "rtext" => rtext(&mut r, n, out),
        "rconcat" => rconcat(&mut r, n, out),
        "sessions" => sessions(&mut r, n, out),
        "soup" => soup(&mut r, n, out),
        "rgarbage" => rgarbage(&mut r, n, out),
        "rdiffmin" => rdiffmin(&mut r, n, out),
        "corpus" => corpus(&mut r, n, out),
        "timing" => timing(&mut r, n, out),
        _ => {
            eprintln!("unknown scenario {}", scenario);
            std::process::exit(2);
        }
    }
}
