//! JSON encoding shared with the TLA+ specification.
//!
//! number      -> array of decimal digits, most significant first
//! text        -> array of bytes (UTF-8)
//! identifier  -> {"k":"n","d":digits} | {"k":"a","s":bytes}
//! version     -> {"M":digits,"m":digits,"p":digits,"pre":[id],"bld":[id]}
//! bound       -> {"k":"unb"} | {"k":"inc","v":version} | {"k":"exc","v":version}
//! interval    -> {"lo":bound,"up":bound};   range -> [interval]

use nodejs_semver::{Identifier, Range, VerifSide, Version};
use serde_json::{json, Value};

pub fn digits(n: u64) -> Value {
    Value::Array(
        n.to_string()
            .bytes()
            .map(|b| Value::from((b - b'0') as u64))
            .collect(),
    )
}

pub fn digits128(n: u128) -> Value {
    Value::Array(
        n.to_string()
            .bytes()
            .map(|b| Value::from((b - b'0') as u64))
            .collect(),
    )
}

/// digits -> u64; None when it does not fit
pub fn undigits(v: &Value) -> Option<u64> {
    let mut acc: u128 = 0;
    for d in v.as_array()? {
        acc = acc.checked_mul(10)?.checked_add(d.as_u64()? as u128)?;
        if acc > u64::MAX as u128 {
            return None;
        }
    }
    Some(acc as u64)
}

pub fn bytes(s: &str) -> Value {
    Value::Array(s.bytes().map(|b| Value::from(b as u64)).collect())
}

pub fn unbytes(v: &Value) -> Option<String> {
    let raw: Option<Vec<u8>> = v
        .as_array()?
        .iter()
        .map(|b| b.as_u64().map(|x| x as u8))
        .collect();
    String::from_utf8(raw?).ok()
}

pub fn id_to_json(id: &Identifier) -> Value {
    match id {
        Identifier::Numeric(n) => json!({"k":"n","d":digits(*n)}),
        Identifier::AlphaNumeric(s) => json!({"k":"a","s":bytes(s)}),
    }
}

pub fn id_from_json(v: &Value) -> Option<Identifier> {
    match v.get("k")?.as_str()? {
        "n" => Some(Identifier::Numeric(undigits(v.get("d")?)?)),
        "a" => Some(Identifier::AlphaNumeric(unbytes(v.get("s")?)?)),
        _ => None,
    }
}

pub fn ver_to_json(v: &Version) -> Value {
    json!({
        "M": digits(v.major), "m": digits(v.minor), "p": digits(v.patch),
        "pre": v.pre_release.iter().map(id_to_json).collect::<Vec<_>>(),
        "bld": v.build.iter().map(id_to_json).collect::<Vec<_>>(),
    })
}

pub fn ver_from_json(v: &Value) -> Option<Version> {
    let ids = |k: &str| -> Option<Vec<Identifier>> {
        match v.get(k) {
            None => Some(vec![]),
            Some(a) => a.as_array()?.iter().map(id_from_json).collect(),
        }
    };
    Some(Version {
        major: undigits(v.get("M")?)?,
        minor: undigits(v.get("m")?)?,
        patch: undigits(v.get("p")?)?,
        pre_release: ids("pre")?,
        build: ids("bld")?,
    })
}

pub fn side_to_json(s: &VerifSide) -> Value {
    match s {
        None => json!({"k":"unb"}),
        Some((true, v)) => json!({"k":"inc","v":ver_to_json(v)}),
        Some((false, v)) => json!({"k":"exc","v":ver_to_json(v)}),
    }
}

pub fn side_from_json(v: &Value) -> Option<VerifSide> {
    match v.get("k")?.as_str()? {
        "unb" => Some(None),
        "inc" => Some(Some((true, ver_from_json(v.get("v")?)?))),
        "exc" => Some(Some((false, ver_from_json(v.get("v")?)?))),
        _ => None,
    }
}

pub fn bounds_to_json(b: &[(VerifSide, VerifSide)]) -> Value {
    Value::Array(
        b.iter()
            .map(|(lo, up)| json!({"lo":side_to_json(lo),"up":side_to_json(up)}))
            .collect(),
    )
}

pub fn range_to_json(r: &Range) -> Value {
    bounds_to_json(&r.verif_bounds())
}

pub fn bounds_from_json(v: &Value) -> Option<Vec<(VerifSide, VerifSide)>> {
    v.as_array()?
        .iter()
        .map(|iv| Some((side_from_json(iv.get("lo")?)?, side_from_json(iv.get("up")?)?)))
        .collect()
}
