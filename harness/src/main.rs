//! verif-harness: executes TLC-generated or driver-generated cases against the real crate
//! (path dependency on /repo, features serde + verif-hooks, overflow checks and debug
//! assertions on) and records ndjson traces for validation by spec/Trace.tla.

mod enc;
mod exec;
mod gen;

use std::fs::File;
use std::io::{BufRead, BufReader, BufWriter, Write};

fn arg(args: &[String], name: &str) -> Option<String> {
    args.iter().position(|a| a == name).and_then(|i| args.get(i + 1).cloned())
}

static PROGRESS: std::sync::atomic::AtomicU64 = std::sync::atomic::AtomicU64::new(0);

fn main() {
    let args: Vec<String> = std::env::args().collect();
    let cmd = args.get(1).map(|s| s.as_str()).unwrap_or("");
    match cmd {
        "exec" => {
            let cases = arg(&args, "--cases").expect("--cases");
            let out = arg(&args, "--out").expect("--out");
            let cap = arg(&args, "--probe-cap").and_then(|s| s.parse().ok()).unwrap_or(48usize);
            exec::install_panic_hook();
            let rd = BufReader::new(File::open(&cases).expect("open cases"));
            let wr = BufWriter::with_capacity(1 << 20, File::create(&out).expect("create out"));
            let mut ctx = exec::Ctx::new(wr);
            ctx.probe_cap = cap;
            let mut n = 0u64;
            // watchdog: a case that does not return within VERIF_HANG_SECS (default 120) is reported with its number
            // and the process exits with status 3 (C06: "or hang"); the orchestrator turns that into a violation
            let limit = std::env::var("VERIF_HANG_SECS").ok().and_then(|s| s.parse().ok()).unwrap_or(120u64);
            std::thread::spawn(move || {
                let (mut seen, mut since) = (0u64, std::time::Instant::now());
                loop {
                    std::thread::sleep(std::time::Duration::from_millis(500));
                    let cur = PROGRESS.load(std::sync::atomic::Ordering::Relaxed);
                    if cur != seen {
                        seen = cur;
                        since = std::time::Instant::now();
                    } else if cur > 0 && since.elapsed().as_secs() >= limit {
                        println!("{{\"hang_cid\":{}}}", cur);
                        std::process::exit(3);
                    }
                }
            });
            for line in rd.lines() {
                let line = line.expect("read");
                if line.trim().is_empty() {
                    continue;
                }
                let case: serde_json::Value = match serde_json::from_str(&line) {
                    Ok(c) => c,
                    Err(e) => {
                        eprintln!("bad case line {}: {}", n + 1, e);
                        std::process::exit(2);
                    }
                };
                n += 1;
                ctx.cid = n;
                PROGRESS.store(n, std::sync::atomic::Ordering::Relaxed);
                ctx.run_case(&case);
            }
            ctx.out.flush().unwrap();
            println!("{{\"cases\":{},\"events\":{},\"panics\":{}}}", n, ctx.events, ctx.panics);
        }
        "gen" => {
            let scenario = args.get(2).cloned().unwrap_or_default();
            let seed = arg(&args, "--seed").and_then(|s| s.parse().ok()).unwrap_or(1u64);
            let n = arg(&args, "--n").and_then(|s| s.parse().ok()).unwrap_or(1000usize);
            let out = arg(&args, "--out").expect("--out");
            let mut wr = BufWriter::with_capacity(1 << 20, File::create(&out).expect("create out"));
            let count = gen::generate(&scenario, seed, n, &mut wr);
            wr.flush().unwrap();
            println!("{{\"cases\":{}}}", count);
        }
        _ => {
            eprintln!("usage: verif-harness exec --cases F --out G | gen <scenario> --seed S --n N --out F");
            std::process::exit(2);
        }
    }
}
