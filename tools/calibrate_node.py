#!/usr/bin/env python3
"""Design-time calibration of the range oracle against the node-semver copy that happens to be in this image
(npm's own dependency).  NOT part of any registered command; nothing at run time depends on node.

  tools/calibrate_node.py <trace.ndjson> [<bad.json>]

For every recorded `rparse ok` event it asks node-semver (loose mode) whether each probe version satisfies the
text and compares with what the crate answered.  Events the trace specification flagged (bad.json) are listed
separately.  Since the checks show crate == specification on everything not flagged, every disagreement printed
here for an unflagged event is a disagreement between the specification and node-semver's implementation."""
import json, sys, subprocess, os, tempfile, collections
sys.path.insert(0, os.path.join(os.path.dirname(os.path.abspath(__file__)), '..', 'bin'))
import pretty
trace = sys.argv[1]
flagged = set()
if len(sys.argv) > 2:
    flagged = set(l for l, c, t in json.load(open(sys.argv[2])))
items = []
for i, line in enumerate(open(trace), 1):
    if '"ev":"rparse"' not in line: continue
    e = json.loads(line)
    if e.get('out') != 'ok': 
        items.append({'line': i, 'text': pretty.txt(e['text']), 'ok': False, 'ast': 'ast' in e, 'vs': [], 'rs': []}); continue
    MAXS = 900719925474099
    num = lambda d: int(''.join(map(str, d)))
    obs = [o for o in e['obs'] if max(num(o['v']['M']), num(o['v']['m']), num(o['v']['p'])) <= MAXS]
    items.append({'line': i, 'text': pretty.txt(e['text']), 'ok': True, 'ast': 'ast' in e,
                  'vs': [pretty.ver(o['v']) for o in obs], 'rs': [o['r'] for o in obs]})
js = r'''
const semver = require('/usr/lib/node_modules/npm/node_modules/semver');
const items = JSON.parse(require('fs').readFileSync(process.argv[2]));
const out = [];
for (const it of items) {
  let valid = true; let ans = [];
  try { new semver.Range(it.text, {loose: true}); } catch (e) { valid = false; }
  if (valid) for (const v of it.vs) { let a = null; try { a = semver.satisfies(v, it.text, {loose: true}); } catch (e) { a = null; } ans.push(a); }
  out.push({valid, ans});
}
console.log(JSON.stringify(out));
'''
with tempfile.TemporaryDirectory() as td:
    open(os.path.join(td, 'c.js'), 'w').write(js)
    json.dump(items, open(os.path.join(td, 'items.json'), 'w'))
    res = json.loads(subprocess.run(['node', os.path.join(td, 'c.js'), os.path.join(td, 'items.json')], stdout=subprocess.PIPE, text=True, check=True).stdout)
stats = collections.Counter(); examples = collections.defaultdict(list)
for it, r in zip(items, res):
    fl = ('flagged' if it['line'] in flagged else 'unflagged') + (' ast' if it.get('ast') else ' raw')
    if not it['ok']:
        k = f'{fl}: crate rejects, node ' + ('accepts' if r['valid'] else 'rejects')
        stats[k] += 1
        if r['valid'] and len(examples[k]) < 400: examples[k].append(it['text'])
        continue
    if not r['valid']:
        k = f'{fl}: crate accepts, node rejects'; stats[k] += 1
        if len(examples[k]) < 400: examples[k].append(it['text'])
        continue
    diffs = [(v, a, b) for v, a, b in zip(it['vs'], it['rs'], r['ans']) if b is not None and a != b]
    k = f'{fl}: ' + ('agree' if not diffs else 'DISAGREE')
    stats[k] += 1
    if diffs and len(examples[k]) < 40: examples[k].append((it['text'], diffs[:3]))
for k, v in sorted(stats.items()): print(v, k)
for k, ex in examples.items():
    print('==', k)
    import random
    random.seed(1)
    if len(ex) > 45: ex = random.sample(ex, 45)
    for x in ex: print('   ', repr(x) if isinstance(x, str) else x)
