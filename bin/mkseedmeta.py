#!/usr/bin/env python3
"""Writes seeded/<id>/meta.json from the agent's meta.txt, my confirmation (confirm.json) and the seedrun logs."""
import json, os, re, glob, sys
ROOT = os.path.dirname(os.path.dirname(os.path.abspath(__file__)))
logs = {}
for lf in sorted(glob.glob(os.path.join(ROOT, 'seeded', 'logs', '*.txt'))):
    cur = None
    for line in open(lf):
        m = re.match(r'=== (\S+)', line)
        if m:
            cur = m.group(1)
            if cur.endswith('/patch'):
                cur = cur[:-len('/patch')]
            logs.setdefault(cur, {}); continue
        m = re.match(r'(C\d+): (DETECTED|MISSED|TOOL)\s*(.*)', line)
        if m and cur:
            logs[cur].setdefault(m.group(1), []).append({'verdict': m.group(2), 'flagged': m.group(3).strip(), 'log': os.path.basename(lf)})
for d in sorted(glob.glob(os.path.join(ROOT, 'seeded', '*'))):
    name = os.path.basename(d)
    if name == 'logs' or not os.path.isdir(d):
        continue
    meta = {'id': name}
    if name.startswith('revert-'):
        meta['origin'] = 'reverse patch of a fix: commit of /repo (the pinned tree behaviour); written by me'
        meta['confirmed'] = 'the existing suite passed on the pinned tree by construction (132/133, the always-failing intersection::lt_123 aside)'
    elif name.startswith('benign-'):
        meta['origin'] = 'written by me: a change under which the properties hold at least as well as before (see description); MISSED = the check stays green, as it must'
        if os.path.exists(os.path.join(d, 'meta.txt')):
            meta['description'] = open(os.path.join(d, 'meta.txt')).read()
    elif name.startswith('mine-'):
        meta['origin'] = 'written by me to exercise a part of the machinery (see description)'
        meta['breaks_property'] = name.split('-')[1]
        if os.path.exists(os.path.join(d, 'meta.txt')):
            meta['description'] = open(os.path.join(d, 'meta.txt')).read()
    else:
        meta['origin'] = 'written by an independent sub-agent that saw only the property text and a scratch worktree of /repo'
        m = re.search(r'(?:^|-)(C\d\d)(?:-|$)', name)
        meta['breaks_property'] = m.group(1) if m else name.split('-')[0]
        if os.path.exists(os.path.join(d, 'meta.txt')):
            meta['description'] = open(os.path.join(d, 'meta.txt')).read()
            pm = re.search(r'^property:\s*(C\d\d)', meta['description'], re.M)
            if pm: meta['breaks_property'] = pm.group(1)
            nm = re.search(r'^Needs:\s*(.*)$', meta['description'], re.M)
            if nm: meta['needs_to_manifest'] = nm.group(1)
        if os.path.exists(os.path.join(d, 'confirm.json')):
            c = json.load(open(os.path.join(d, 'confirm.json')))
            meta['confirmed_by_me'] = {k: c.get(k) for k in ('confirmed', 'suite_with_change', 'demo_with_change', 'demo_without_change')}
            meta['what_i_ran'] = 'bin/confirm_seed <scratch worktree> patch.diff demo.rs  (git apply; cargo test --offline; cargo test --offline --test demo with and without the change)'
    for half in ('patch_a', 'patch_b'):
        if f'{name}/{half}' in logs:
            meta.setdefault('single_edit_runs', {})[half] = {p: r[-1]['verdict'] for p, r in logs[f'{name}/{half}'].items()}
            meta['single_edit_note'] = 'each edit alone preserves the property; MISSED = the check stays green on it, as it must'
    meta['check_runs'] = logs.get(name, {})   # per property, in chronological order (later logs = after strengthening)
    meta['final'] = {p: runs[-1]['verdict'] for p, runs in logs.get(name, {}).items()}
    meta['how_run'] = 'bin/seedrun seeded/%s/patch.diff <properties>   (git -C /repo apply; bin/verif <P>; git -C /repo checkout -- .)' % name
    json.dump(meta, open(os.path.join(d, 'meta.json'), 'w'), indent=1)
rows = []
for name in sorted(logs):
    rows.append((name, ', '.join(f'{p}:' + '>'.join(r['verdict'] for r in v) for p, v in logs[name].items())))
for r in rows: print('%-40s %s' % r)
