#!/usr/bin/env python3
"""Prints the 'as built' per-property table for DESIGN.md from bin/props.py and the current evidence files."""
import json, os, sys
ROOT = os.path.dirname(os.path.dirname(os.path.abspath(__file__)))
sys.path.insert(0, os.path.join(ROOT, 'bin'))
from props import PROPS
print('| property | bounded models (TLC) | seeded generators | judged events | quick tier: cases / events / distinct non-trivial / wall |')
print('|---|---|---|---|---|')
for p in sorted(PROPS):
    c = PROPS[p]
    models = ', '.join(f"{m['name']}" + (' (thorough only)' if m.get('tiers') == ('thorough',) else '') for m in c.get('models', [])) or '—'
    gens = ', '.join(f"{g['scenario']} ({g['n']['quick']}/{g['n']['thorough']})" for g in c.get('gens', [])) or '—'
    ev = ', '.join(c['events'])
    st = ''
    ef = os.path.join(ROOT, 'evidence', f'{p}.json')
    if os.path.exists(ef):
        e = json.load(open(ef))
        cv = e['coverage']
        st = f"{cv['traces_validated_against_impl']} / {cv['trace_events']} / {cv['distinct_nontrivial']} / {e['wall_s']} s"
    print(f'| {p} | {models} | {gens} | {ev} | {st} |')
