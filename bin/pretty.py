#!/usr/bin/env python3
"""Human-readable rendering of trace events / cases (debugging aid, not part of any verdict)."""
import json, sys

def num(d): return ''.join(map(str, d))
def ids(l): return '.'.join(num(i['d']) if i['k'] == 'n' else bytes(i['s']).decode('utf-8', 'replace') for i in l)
def ver(v):
    if not isinstance(v, dict): return str(v)
    s = f"{num(v['M'])}.{num(v['m'])}.{num(v['p'])}"
    if v.get('pre'): s += '-' + ids(v['pre'])
    if v.get('bld'): s += '+' + ids(v['bld'])
    return s
def iv(i):
    lo, up = i['lo'], i['up']
    l = '' if lo['k'] == 'unb' else ('>=' if lo['k'] == 'inc' else '>') + ver(lo['v'])
    u = '' if up['k'] == 'unb' else ('<=' if up['k'] == 'inc' else '<') + ver(up['v'])
    return (l + ' ' + u).strip() or '*'
def rng(r):
    if not isinstance(r, list): return str(r)
    return ' || '.join(iv(i) for i in r) if r else 'Nil'
def txt(b):
    try: return bytes(b).decode('utf-8', 'replace')
    except Exception: return str(b)

TEXT = {'text', 'text2', 'json', 'print', 'print2', 'dotted', 'input'}
RNG = {'val', 'jval', 'want', 'ival', 'A', 'B'}
def show(e):
    out = {}
    for k, v in e.items():
        if k in TEXT and isinstance(v, list): out[k] = txt(v)
        elif k in RNG and isinstance(v, list) and (not v or isinstance(v[0], dict) and 'lo' in v[0]): out[k] = rng(v)
        elif k in ('val', 'a', 'b', 'v') and isinstance(v, dict) and 'M' in v: out[k] = ver(v)
        elif k == 'obs':
            out[k] = [{kk: (ver(vv) if kk == 'v' else vv) for kk, vv in o.items()} for o in v]
        elif k in ('list', 'sorted', 'usorted', 'max', 'min') and isinstance(v, list): out[k] = [ver(x) for x in v]
        elif k == 'vals': out[k] = [num(x) for x in v]
        elif k == 'err' and isinstance(v, dict):
            out[k] = {kk: (txt(vv) if kk == 'input' else vv) for kk, vv in v.items()}
        elif isinstance(v, dict): out[k] = show(v)
        else: out[k] = v
    return out

if __name__ == '__main__':
    path = sys.argv[1]
    want = set(int(x) for x in sys.argv[2:])
    evs = [json.loads(l) for l in open(path)]
    for i in sorted(want):
        e = evs[i - 1]
        j = i - 1
        while j > 0 and evs[j]['ev'] != 'reset': j -= 1
        print(f'--- event {i} (case {e.get("cid")}) context:')
        for k in range(j, i - 1):
            x = evs[k]
            if x['ev'] in ('rload', 'isect', 'diff', 'rparse', 'rany', 'print'):
                print(f'    {k+1} {x["ev"]} dst={x.get("dst")} a={x.get("a")} b={x.get("b")} -> {rng(x.get("val", []))}' + (f'  text={txt(x["text"])!r}' if 'text' in x else ''))
        s = show(e)
        obs = s.pop('obs', None)
        print('   ', json.dumps(s, ensure_ascii=False))
        if obs:
            for o in obs: print('       ', o)
