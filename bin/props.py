"""Per-property configuration of the checks (models, generators, relevant events)."""

INTERVAL_INVS = ['InvIntersect', 'InvIntersectCommutes', 'InvIntersectIdempotent', 'InvDifference',
                 'InvAllowsAny', 'InvAllowsAll', 'InvMinVersion', 'InvProbesComplete']

def mc_interval(invs):
    return dict(name='MC_Interval', module='MC_Interval',
                constants=dict(Universe='small', Alts=1, UseImpl=False, Emit=True),
                thorough=dict(Universe='large'),
                invariants=invs)

COMMON_ASSUME = [
    'TLC explores the bounded models exhaustively only within the stated constants',
    'the harness (JSON encoding, hook Range::verif_bounds / verif_from_bounds, catch_unwind wrappers) is trusted; it contains no oracle',
    'verdicts come from spec/Api.tla postconditions evaluated by TLC on the recorded trace (spec/Trace.tla)',
]

def panic_property(call):
    return None

PROPS = {
    'C07': dict(
        models=[mc_interval(['InvIntersect', 'InvIntersectCommutes', 'InvIntersectIdempotent', 'InvProbesComplete'])],
        gens=[dict(scenario='ranges', n=dict(quick=3000, thorough=60000))],
        do=['isect'], events=['isect'],
        rule='cases = every ordered pair of valid intervals over the endpoint universe of MC_Interval (exhaustive) + seeded random pairs of 1-3 alternative ranges over tie-rich version pools; a case is non-trivial when both operands could be built and at least one intersect call was judged; distinct = distinct case text',
        exhaustive_models=True, assumptions=COMMON_ASSUME),
    'C08': dict(
        models=[mc_interval(['InvDifference', 'InvProbesComplete'])],
        gens=[dict(scenario='ranges', n=dict(quick=3000, thorough=60000))],
        do=['diff'], events=['diff'],
        rule='as C07, judged calls are difference (with A.intersect(B) recorded for the partition clause)',
        exhaustive_models=True, assumptions=COMMON_ASSUME),
    'C09': dict(
        models=[mc_interval(['InvAllowsAny', 'InvProbesComplete'])],
        gens=[dict(scenario='ranges', n=dict(quick=4000, thorough=80000))],
        do=['any'], events=['any'],
        rule='as C07, judged calls are allows_any in both directions plus intersect(..).is_some()',
        exhaustive_models=True, assumptions=COMMON_ASSUME),
    'C10': dict(
        models=[mc_interval(['InvAllowsAll', 'InvProbesComplete'])],
        gens=[dict(scenario='ranges', n=dict(quick=4000, thorough=80000))],
        do=['all'], events=['all'],
        rule='as C07, judged calls are allows_all(A,B), allows_all(A,A), with allows_any and B.difference(A) recorded',
        exhaustive_models=True, assumptions=COMMON_ASSUME),
    'C11': dict(
        models=[mc_interval(['InvMinVersion', 'InvProbesComplete'])],
        gens=[dict(scenario='ranges', n=dict(quick=3000, thorough=60000))],
        do=['diff', 'minv'], events=['minv'],
        rule='as C07, judged calls are min_version of the left operand and of A.difference(B) (which produces exclusive lower bounds directly under upper bounds)',
        exhaustive_models=True, assumptions=COMMON_ASSUME),
}

_LEVEL = ('TLC checks the design of the operation (spec/Interval.tla) against the declarative statement, pointwise on a complete '
          'probe set, for every operand pair of the bounded universe; each enumerated pair and thousands of seeded large/irregular '
          'pairs are then executed against the real crate and every recorded call is judged by TLC against the Api postcondition. '
          'Exhaustive in the small scope, sampled outside it; no proof about the Rust code.')
_NOTE = ('Trusted: TLC, the harness (JSON encoding, hooks verif_bounds/verif_from_bounds, catch_unwind wrappers), the completeness '
         'argument for Probes (DESIGN.md 2.1, checked by InvProbesComplete in the bounded model).')
MANIFEST_TEXT = {
    'C07': dict(level=_LEVEL, note=_NOTE, design_ref='DESIGN.md section 4 (C07)', technique='TLA+ model checking (TLC) of the interval algebra + trace validation of recorded intersect calls against spec/Api.tla'),
    'C08': dict(level=_LEVEL, note=_NOTE, design_ref='DESIGN.md section 4 (C08)', technique='TLA+ model checking (TLC) of the interval algebra + trace validation of recorded difference calls against spec/Api.tla'),
    'C09': dict(level=_LEVEL, note=_NOTE, design_ref='DESIGN.md section 4 (C09)', technique='TLA+ model checking (TLC) of the overlap relation + trace validation of recorded allows_any calls against spec/Api.tla'),
    'C10': dict(level=_LEVEL, note=_NOTE, design_ref='DESIGN.md section 4 (C10)', technique='TLA+ model checking (TLC) of containment + trace validation of recorded allows_all calls against spec/Api.tla'),
    'C11': dict(level=_LEVEL, note=_NOTE, design_ref='DESIGN.md section 4 (C11)', technique='TLA+ model checking (TLC) of MinVersion + trace validation of recorded min_version calls against spec/Api.tla'),
}
NOT_APPLICABLE = [dict(property_id=p, reason='check under construction in this session (specification module not yet bound to the code); not claimed yet')
                  for p in ['C01', 'C02', 'C03', 'C04', 'C05', 'C06', 'C12', 'C13', 'C14', 'C15', 'C16', 'C17', 'C18']]
