"""Per-property configuration of the checks (models, generators, relevant events)."""

INTERVAL_INVS = ['InvIntersect', 'InvIntersectCommutes', 'InvIntersectIdempotent', 'InvDifference',
                 'InvAllowsAny', 'InvAllowsAll', 'InvMinVersion', 'InvProbesComplete']

def mc_interval(invs):
    return dict(name='MC_Interval', module='MC_Interval',
                constants=dict(Universe='small', Alts=1, UseImpl=False, Emit=True),
                thorough=dict(Universe='large'),
                invariants=invs)

COMMON_ASSUME = [
    'TLC explores the bounded models exhaustively only within the stated constants',
    'the harness (JSON encoding, hook Range::verif_bounds / verif_from_bounds, catch_unwind wrappers) is trusted; it contains no oracle',
    'verdicts come from spec/Api.tla postconditions evaluated by TLC on the recorded trace (spec/Trace.tla)',
]

def panic_property(call):
    return None

PROPS = {
    'C07': dict(
        models=[mc_interval(['InvIntersect', 'InvIntersectCommutes', 'InvIntersectIdempotent', 'InvProbesComplete'])],
        gens=[dict(scenario='ranges', n=dict(quick=3000, thorough=60000))],
        do=['isect'], events=['isect'],
        rule='cases = every ordered pair of valid intervals over the endpoint universe of MC_Interval (exhaustive) + seeded random pairs of 1-3 alternative ranges over tie-rich version pools; a case is non-trivial when both operands could be built and at least one intersect call was judged; distinct = distinct case text',
        exhaustive_models=True, assumptions=COMMON_ASSUME),
    'C08': dict(
        models=[mc_interval(['InvDifference', 'InvProbesComplete'])],
        gens=[dict(scenario='ranges', n=dict(quick=3000, thorough=60000))],
        do=['diff'], events=['diff'],
        rule='as C07, judged calls are difference (with A.intersect(B) recorded for the partition clause)',
        exhaustive_models=True, assumptions=COMMON_ASSUME),
    'C09': dict(
        models=[mc_interval(['InvAllowsAny', 'InvProbesComplete'])],
        gens=[dict(scenario='ranges', n=dict(quick=4000, thorough=80000))],
        do=['any'], events=['any'],
        rule='as C07, judged calls are allows_any in both directions plus intersect(..).is_some()',
        exhaustive_models=True, assumptions=COMMON_ASSUME),
    'C10': dict(
        models=[mc_interval(['InvAllowsAll', 'InvProbesComplete'])],
        gens=[dict(scenario='ranges', n=dict(quick=4000, thorough=80000))],
        do=['all'], events=['all'],
        rule='as C07, judged calls are allows_all(A,B), allows_all(A,A), with allows_any and B.difference(A) recorded',
        exhaustive_models=True, assumptions=COMMON_ASSUME),
    'C11': dict(
        models=[mc_interval(['InvMinVersion', 'InvProbesComplete'])],
        gens=[dict(scenario='ranges', n=dict(quick=3000, thorough=60000))],
        do=['diff', 'minv'], events=['minv'],
        rule='as C07, judged calls are min_version of the left operand and of A.difference(B) (which produces exclusive lower bounds directly under upper bounds)',
        exhaustive_models=True, assumptions=COMMON_ASSUME),
}

VTEXT_INVS = ['InvFold', 'InvDeadAbsorbing', 'InvRoundTrip', 'InvFailureOffset']
def mc_vtext(sym, quick, thorough, name):
    return dict(name=name, module='MC_VText',
                constants=dict(SymbolSet=sym, MaxLive=quick[0], MaxExtra=quick[1], Emit=True),
                thorough=dict(MaxLive=thorough[0], MaxExtra=thorough[1]),
                invariants=VTEXT_INVS)
VTEXT_MODELS = [mc_vtext('a', (6, 1), (7, 2), 'MC_VText_a'), mc_vtext('b', (5, 1), (6, 1), 'MC_VText_b')]
VTEXT_RULE = ('cases = every string of up to MaxLive symbols while the parser machine is alive plus MaxExtra symbols after its first failure, '
              'over two symbol sets (digits . - + v V a A x blank tab newline _ and two multi-byte characters) (exhaustive), + every single-byte '
              'insert / delete / replace edit of 13 canonical versions over a 22-symbol alphabet, numbers at and around MAX_SAFE_INTEGER and 2^64 in every '
              'position, lengths 254-300 ending in 1-4 byte characters, random strings up to 400 bytes (seeded); non-trivial = the string was passed to '
              'Version::parse and judged; distinct = distinct string')
def mc_version(mode, invs, name, thorough_size='large'):
    return dict(name=name, module='MC_Version', constants=dict(Mode=mode, Size='small', Emit=True),
                thorough=dict(Size=thorough_size), invariants=invs)

PROPS.update({
    'C04': dict(
        models=[mc_version('order', ['InvReflexive', 'InvAntisymmetric', 'InvEqIffKey', 'InvSucc'], 'MC_Order'),
                mc_version('triples', ['InvTransitive'], 'MC_Triples', thorough_size='small')],
        gens=[dict(scenario='vorder', n=dict(quick=10000, thorough=150000))],
        events=['vcmp', 'vsort'],
        rule='cases = every ordered pair of the version universe of MC_Version (3 or 6 tuples x all prerelease lists of length <= 2 over {0,2,10,a,B,a-,a0,1a,-,2^64-1,2^64-2}) (exhaustive) + seeded pairs and lists (<= 12) with components up to MAX_SAFE_INTEGER (also: all numbers of a pair within one bit length 1..50, a higher field equal or one apart, lower fields at the edges of that bit length), numeric identifiers up to 2^64-1, identifier lists up to 6, confusable identifiers, build metadata; distinct = distinct case text',
        exhaustive_models=True, assumptions=COMMON_ASSUME),
    'C05': dict(models=VTEXT_MODELS, gens=[dict(scenario='vtext', n=dict(quick=12000, thorough=120000))],
                events=['vparse'], rule=VTEXT_RULE, exhaustive_models=True, assumptions=COMMON_ASSUME, chunks=14),
    'C12': dict(models=VTEXT_MODELS, gens=[dict(scenario='vtext', n=dict(quick=12000, thorough=120000))],
                events=['vparse'], rule=VTEXT_RULE + '; for C12 only accepted strings matter (each is printed, re-parsed, printed again, serialised and deserialised)',
                exhaustive_models=True, assumptions=COMMON_ASSUME, chunks=14),
    'C17': dict(models=VTEXT_MODELS, gens=[dict(scenario='vtext', n=dict(quick=12000, thorough=120000))],
                events=['vparse'], rule=VTEXT_RULE + '; for C17 only rejected strings matter (every accessor and diagnostic of the error is recorded)',
                exhaustive_models=True, assumptions=COMMON_ASSUME, chunks=14),
    'C16': dict(
        models=[mc_version('diff', ['InvDiffSymmetric', 'InvDiffNoneIffEqual', 'InvDiffBuildBlind'], 'MC_Diff', thorough_size='small')],
        gens=[dict(scenario='vdiffs', n=dict(quick=5000, thorough=100000))],
        events=['vdiff'],
        rule='cases = all 6561 ordered pairs of {0,1,2}^3 x {release, -0, -a} (exhaustive) + seeded pairs with large components, long tags and build metadata; distinct = distinct case text',
        exhaustive_models=True, assumptions=COMMON_ASSUME),
    'C18': dict(
        models=[dict(name='MC_Tuple_position', module='MC_Tuple', constants=dict(Mode='position', Emit=True), invariants=['InvTupleRoundTrip']),
                dict(name='MC_Tuple_grid', module='MC_Tuple', constants=dict(Mode='grid', Emit=True), invariants=['InvTupleRoundTrip'])],
        gens=[dict(scenario='vtuples', n=dict(quick=12000, thorough=120000))],
        events=['vtuple'],
        rule='cases = for u8 and i8 every non-negative value in every position of triples and quadruples (others 0 or drawn from a boundary grid), the full product of a 5-value boundary grid for all ten integer types, and seeded random values pushed through every type that can hold them; judged by TLC against FromTuple3/FromTuple4 and PrintVersion; distinct = distinct (type, values)',
        exhaustive_models=True, assumptions=COMMON_ASSUME + ['the full product 128^4 / 256^4 of the 8-bit types is not enumerated: per-position exhaustiveness x boundary fills, plus boundary-grid products for all ten types (the conversion has no cross-field logic)']),
})

SYNTAX_INVS = ['InvFoldMeans', 'InvUnsat', 'InvOrder', 'InvPrintRoundTrip', 'InvParseRender']
def mc_syntax(mode, name, quick_of, size='small', thorough_size=None, tiers=('quick', 'thorough'), caseop='rparse'):
    return dict(name=name, module='MC_Syntax', constants=dict(Mode=mode, Size=size, Emit=True, CaseOp=caseop, Slice='SEED', Of=quick_of),
                thorough=dict(Of=1, Size=thorough_size or size), invariants=SYNTAX_INVS, tiers=tiers)
SYNTAX_RULE = ('cases = range texts rendered from syntax trees: every single comparator over numbers {0,1,2}, x/X/*, absent components, tags {none,-0,-a} (also after a partial with a wildcard: `1.x.2-a`, `1.2.x-0`) '
               'under 9 operators and 8 spelling knobs; every hyphen pair of those partials; space-joined pairs, `||` pairs and garbage tokens in every position '
               'over numbers {0,1} (quick tier: a seeded 1/k slice of the first component; thorough: all); + seeded random trees with components up to MAX_SAFE_INTEGER, '
               '1-4 comparators, 1-3 alternatives, every spelling knob; each text is parsed by the crate and satisfies() is compared with the npm meaning on the probe set '
               'of the desugared bounds, of the bounds the crate built, and a background grid; distinct = distinct text')
PROPS.update({
    'C01': dict(
        models=[mc_syntax('single', 'MC_Syntax_single', 1), mc_syntax('hyphen', 'MC_Syntax_hyphen', 4),
                mc_syntax('pairs', 'MC_Syntax_pairs', 8), mc_syntax('alts', 'MC_Syntax_alts', 16)],
        gens=[], events=['rparse'], rule=SYNTAX_RULE, exhaustive_models=True, assumptions=COMMON_ASSUME, probe_cap=40, chunks=14),
})

PROPS['C01']['gens'] = [dict(scenario='rtext', n=dict(quick=3000, thorough=60000))]
PROPS.update({
    'C02': dict(
        models=[mc_syntax('pairs', 'MC_Syntax_pairs_concat', 4, caseop='concat'), mc_syntax('alts', 'MC_Syntax_alts_concat', 8, caseop='concat')],
        gens=[dict(scenario='rconcat', n=dict(quick=3000, thorough=60000))],
        events=['concat'],
        rule='cases = pairs of range texts (a, b): every pair of comparators over numbers {0,1} of MC_Syntax (quick: a seeded slice of the first component; thorough: all) for `a b`/`b a` and `a||b`/`b || a`, + seeded random comparator lists and multi-alternative texts sharing a small pool of numbers and tags so that empty and non-empty conjunctions both occur; all four texts plus a and b are parsed by the crate; distinct = distinct (kind, a, b)',
        exhaustive_models=True, assumptions=COMMON_ASSUME, probe_cap=40, chunks=14),
    'C03': dict(
        models=[mc_syntax('single', 'MC_Syntax_single', 1), mc_syntax('pairs', 'MC_Syntax_pairs', 8), mc_syntax('alts', 'MC_Syntax_alts', 16)],
        gens=[dict(scenario='rtext', n=dict(quick=4000, thorough=60000))],
        events=['rparse', 'sat'],
        rule=SYNTAX_RULE + '; for C03 the verdict is phrased given the bounds the crate built: a prerelease is satisfied iff it lies in the bounds of the alternative and some comparator was written with a tag on its tuple; probes include same-tuple / neighbouring-tuple / foreign-tuple prereleases and build-suffixed copies; for texts with several alternatives (and whenever the observations disagree with the meaning) the order-free clauses apply: no prerelease admitted without a written tag on its tuple in some alternative, none refused that an alternative as written both contains and tags',
        exhaustive_models=True, assumptions=COMMON_ASSUME, probe_cap=40, chunks=14),
})

PROPS['C03']['gens'].append(dict(scenario='ranges', n=dict(quick=2000, thorough=30000)))
PROPS['C03']['do'] = ['sat']
PROPS['C03']['then'] = ['sat']
PROPS['C11']['models'].append(mc_syntax('pairs', 'MC_Syntax_pairs', 8))
PROPS['C11']['gens'].append(dict(scenario='rtext', n=dict(quick=2000, thorough=40000)))
PROPS['C11']['gens'].append(dict(scenario='rdiffmin', n=dict(quick=2000, thorough=40000)))
PROPS['C11']['then'] = ['minv']
PROPS['C11']['rule'] += '; + parsed range texts (pairs of comparators of MC_Syntax, seeded random texts), min_version of each'
PROPS.update({
    'C13': dict(
        models=[mc_syntax('single', 'MC_Syntax_single', 2), mc_syntax('hyphen', 'MC_Syntax_hyphen', 8), mc_syntax('pairs', 'MC_Syntax_pairs', 16),
                mc_interval(['InvProbesComplete'])],
        gens=[dict(scenario='rtext', n=dict(quick=3000, thorough=60000)), dict(scenario='ranges', n=dict(quick=2000, thorough=40000))],
        do=['isect', 'diff', 'print'], then=['print'], events=['print'],
        rule='cases = (a) range texts of MC_Syntax (single comparators, hyphen pairs, comparator pairs; seeded slices in the quick tier) and seeded random texts: each is parsed, printed, re-parsed, compared with ==, printed again, serialised and deserialised; (b) every ordered pair of intervals of MC_Interval and seeded multi-alternative pairs: A.intersect(B) and A.difference(B) are printed and re-parsed the same way; non-trivial = a print event was judged; distinct = distinct case text',
        exhaustive_models=True, assumptions=COMMON_ASSUME + ['the `*` shape (both sides unbounded) is produced only by Range::any(), which is outside the quantifier of C13; print events on it are not judged'],
        probe_cap=40, chunks=14),
    'C14': dict(
        models=[mc_syntax('single', 'MC_Syntax_single', 2), mc_syntax('pairs', 'MC_Syntax_pairs', 16), mc_syntax('alts', 'MC_Syntax_alts', 16)],
        gens=[dict(scenario='rtext', n=dict(quick=4000, thorough=60000))],
        then=['maxsat'], events=['maxsat'],
        rule='cases = parsed range texts (MC_Syntax single comparators and pairs, seeded random texts) x the probe versions of the text as an unsorted list of up to 24 versions with duplicates and build-only variants, the same list reversed and rotated, and the empty list; the returned reference is identified by pointer identity; distinct = distinct case text',
        exhaustive_models=True, assumptions=COMMON_ASSUME, probe_cap=40, chunks=14),
})

PROPS.update({
    'C15': dict(
        models=[dict(name='MC_Api', module='MC_Api', constants=dict(MaxOps=2, Alts=1, Emit=True, Slice='SEED', Of=16, Of2=8),
                     thorough=dict(Of=2, Of2=4), invariants=['InvIdeal', 'InvShapes', 'InvIdentities'])],
        gens=[dict(scenario='sessions', n=dict(quick=2500, thorough=50000))],
        events=['ident', 'isect', 'diff'],
        rule='cases = API sessions: (a) every program of the bounded session model MC_Api (three loaded intervals from a seeded slice of the interval universe, then two intersect/difference calls on any registers held so far), with the identities that follow from the ideal-set ghost emitted as `ident` steps; (b) seeded sessions over three parsed range texts instantiating commutativity, idempotence, A-A, (A-B)&B, the partition of A, A-(A-B)=A&B, associativity, and random chains that feed results back; every intermediate result is printed and re-parsed; distinct = distinct program text',
        exhaustive_models=True, assumptions=COMMON_ASSUME, probe_cap=40, chunks=14),
})

PROPS.update({
    'C06': dict(
        models=[dict(name='MC_Tokens', module='MC_Tokens', constants=dict(MaxLen=3, Emit=True, Slice=0, Of=1), thorough=dict(MaxLen=4, Slice='SEED', Of=2),
                     invariants=['InvSpecTotal', 'InvRangeTextTotal']),
                dict(name='MC_VText_a', module='MC_VText', constants=dict(SymbolSet='a', MaxLive=5, MaxExtra=1, Emit=True), thorough=dict(MaxLive=6),
                     invariants=VTEXT_INVS, case_extra={'op': 'soup'})],
        gens=[dict(scenario='soup', n=dict(quick=8000, thorough=150000)), dict(scenario='vtext', n=dict(quick=5000, thorough=60000), case_extra={'op': 'soup'}),
              dict(scenario='timing', n=dict(quick=16384, thorough=65536)),
              dict(scenario='sessions', n=dict(quick=1000, thorough=20000)), dict(scenario='ranges', n=dict(quick=1500, thorough=30000))],
        events=['soup', 'timing', 'vparse', 'rparse', 'isect', 'diff', 'any', 'all', 'minv', 'print', 'panic'],
        rule='cases = every string of up to 3 (thorough: 4, half of the first tokens) tokens over a 26-token alphabet covering every token class (digits, numbers at and above MAX_SAFE_INTEGER and 2^64, . - + * x v ^ ~ > < = | || blank tab newline a e-acute ` - ` 1.2.3) and every string of the version-text model (exhaustive); + every operator form on numbers at the limits, lengths 255-1024 ending in 1-4 byte characters, damaged range texts and versions, token soup (seeded); each string goes through both parsers and every operation is applied to what they return, against itself and the five most recent values, and to the results; + sessions feeding results back; + the same token repeated to n..8n bytes for the time rule; build has overflow checks and debug assertions on; a panic, abort or time-out is a violation; distinct = distinct case text',
        exhaustive_models=True, chunks=14,
        assumptions=COMMON_ASSUME + ['absence of panics is established only on the explored inputs', 'the linear-time clause is a measured budget (50 ms + 20 us/byte; r x input (r >= 4) <= 4r x time + 20 ms), the only wall-clock dependent clause of any check']),
})

# C17 also covers Range::parse errors
PROPS['C17']['models'] = VTEXT_MODELS + [mc_syntax('alts', 'MC_Syntax_alts', 16)]
PROPS['C17']['gens'] = PROPS['C17']['gens'] + [dict(scenario='rgarbage', n=dict(quick=3000, thorough=40000)), dict(scenario='rtext', n=dict(quick=1500, thorough=20000))]
PROPS['C17']['events'] = ['vparse', 'rparse']
PROPS['C17']['strip_vs'] = True      # error reporting does not need satisfies() probes
PROPS['C17']['probe_cap'] = 8
PROPS['C17']['rule'] += '; + range texts: `||` pairs and garbage tokens of MC_Syntax, seeded garbage-only texts (multi-line, multi-byte, numbers above the limit) whose every token is unparseable (NoValidRanges), seeded random range texts'

PROPS['C07']['apalache'] = ['LemmaIntersect']
PROPS['C08']['apalache'] = ['LemmaDifference']
PROPS['C09']['apalache'] = ['LemmaOverlap']
PROPS['C10']['apalache'] = ['LemmaAllowsAll']
PROPS['C04']['apalache'] = [('OrderLaws', 'OrderInt.tla')]
PROPS['C16']['apalache'] = [('DiffLaws', 'OrderInt.tla')]
for _p in ('C07', 'C08', 'C09', 'C10'):
    PROPS[_p]['tlaps'] = 'CutOrder.tla'
    # binds the proved module to Interval.tla: same operators on every pair of bounds of the large universe
    PROPS[_p]['models'].append(dict(name='MC_CutBind', module='MC_CutBind', constants={}, workers=4,
                                    invariants=['InvOrderAssumptions', 'InvTyped', 'InvSameOperators', 'InvSameShapes']))
# C14: every interval over a small endpoint set x every list of up to 3 (thorough: 4) versions of a 7-version universe
PROPS['C14']['models'].append(dict(name='MC_Lists', module='MC_Lists', constants=dict(MaxList=3, Emit=True, Slice=0, Of=1),
                                   thorough=dict(MaxList=4), invariants=['InvAnswerExists']))
PROPS['C14']['rule'] += '; + every interval over {1.0.0-a, 1.0.0, 1.0.1-0} x every list of up to 3 (thorough: 4) versions over {1.0.0-a, 1.0.0-b, 1.0.0, 1.0.0+b, 1.0.1-0, 2.0.0, 0.9.9} (MC_Lists, exhaustive)'

# thorough tier only: two-alternative operands in the interval model (left operand 2 alternatives over a reduced universe),
# deeper sessions by simulation
def mc_interval2(invs):
    return dict(name='MC_Interval_alts2', module='MC_Interval', constants=dict(Universe='tiny', Alts=2, UseImpl=False, Emit=True),
                invariants=invs, tiers=('thorough',))
for _p, _invs in (('C07', ['InvIntersect', 'InvIntersectCommutes']), ('C08', ['InvDifference']), ('C09', ['InvAllowsAny']),
                  ('C10', ['InvAllowsAll']), ('C11', ['InvMinVersion'])):
    PROPS[_p]['models'].append(mc_interval2(_invs))
PROPS['C15']['models'].append(dict(name='MC_Api_deep', module='MC_Api', constants=dict(MaxOps=3, Alts=1, Emit=True, Slice='SEED', Of=64, Of2=16),
                                   invariants=['InvIdeal', 'InvShapes'], tiers=('thorough',)))

# C01 on texts that were NOT rendered from a known tree: judged through spec/RangeText.tla (ParseRangeText)
PROPS['C01']['models'].append(dict(name='MC_Tokens', module='MC_Tokens', constants=dict(MaxLen=3, Emit=True, Slice='SEED', Of=2), thorough=dict(MaxLen=3, Of=1),
                                   invariants=['InvSpecTotal', 'InvRangeTextTotal'], case_extra={'op': 'rparse', 'dst': 1}))
PROPS['C01']['gens'].append(dict(scenario='soup', n=dict(quick=3000, thorough=50000), case_extra={'op': 'rparse', 'dst': 1}))
PROPS['C01']['rule'] += '; + every string of up to 3 tokens over the 26-token alphabet of MC_Tokens and seeded damaged texts / token soup, whose syntax tree is computed from the bytes by spec/RangeText.tla (undetermined texts carry no obligation)'

PROPS['C12']['gens'] = PROPS['C12']['gens'] + [dict(scenario='vbuilt', n=dict(quick=4000, thorough=60000))]
PROPS['C12']['events'] = ['vparse', 'vbuilt']
PROPS['C12']['rule'] += '; + seeded versions built directly from canonical identifiers (components up to MAX_SAFE_INTEGER, numeric identifiers up to 2^64-1, hyphen-only and mixed identifiers, up to 4 prerelease and 3 build identifiers)'

# the literals of the repository's own tests as a seed corpus (each text alone, and random pairs through the set operations)
for _p in ('C01', 'C05', 'C07', 'C08', 'C09', 'C10', 'C11', 'C13', 'C15'):
    PROPS[_p]['gens'] = PROPS[_p]['gens'] + [dict(scenario='corpus', n=dict(quick=300, thorough=5000))]
    PROPS[_p]['rule'] += '; + the 291 string literals of the repository\'s own tests, each alone and in random pairs through the set operations'
for _p in ('C07', 'C08', 'C09', 'C10', 'C11'):
    PROPS[_p]['gens'] = PROPS[_p]['gens'] + [dict(scenario='bigranges', n=dict(quick=600, thorough=10000))]
    PROPS[_p]['rule'] += '; + seeded pairs in which one or both operands have 8-24 alternatives over a wider pool of versions'
for _p in ('C07', 'C08', 'C09', 'C10', 'C11'):
    PROPS[_p]['gens'] = PROPS[_p]['gens'] + [dict(scenario='hugeranges', n=dict(quick=24, thorough=96), spread=True)]
    PROPS[_p]['rule'] += '; + a few seeded pairs with 33-100 alternatives per operand (disjoint blocks in any order, or nested one-sided intervals whose result has |A| x |B| > 1024 alternatives)'
for _p, _evs in (('C07', ['isect']), ('C08', ['diff']), ('C09', ['any']), ('C10', ['all']), ('C11', ['minv']), ('C13', ['print']), ('C15', ['ident']), ('C05', ['vparse']), ('C01', ['rparse'])):
    pass

_LEVEL = ('TLC checks the design of the operation (spec/Interval.tla) against the declarative statement, pointwise on a complete '
          'probe set, for every operand pair of the bounded universe; each enumerated pair and thousands of seeded large/irregular '
          'pairs are then executed against the real crate and every recorded call is judged by TLC against the Api postcondition. '
          'Exhaustive in the small scope, sampled outside it; no proof about the Rust code.')
_NOTE = ('Trusted: TLC, the harness (JSON encoding, hooks verif_bounds/verif_from_bounds, catch_unwind wrappers), the completeness '
         'argument for Probes (DESIGN.md 2.1, checked by InvProbesComplete in the bounded model).')
MANIFEST_TEXT = {
    'C07': dict(level=_LEVEL, note=_NOTE, design_ref='DESIGN.md section 4 (C07)', technique='TLA+ model checking (TLC) of the interval algebra + trace validation of recorded intersect calls against spec/Api.tla'),
    'C08': dict(level=_LEVEL, note=_NOTE, design_ref='DESIGN.md section 4 (C08)', technique='TLA+ model checking (TLC) of the interval algebra + trace validation of recorded difference calls against spec/Api.tla'),
    'C09': dict(level=_LEVEL, note=_NOTE, design_ref='DESIGN.md section 4 (C09)', technique='TLA+ model checking (TLC) of the overlap relation + trace validation of recorded allows_any calls against spec/Api.tla'),
    'C10': dict(level=_LEVEL, note=_NOTE, design_ref='DESIGN.md section 4 (C10)', technique='TLA+ model checking (TLC) of containment + trace validation of recorded allows_all calls against spec/Api.tla'),
    'C11': dict(level=_LEVEL, note=_NOTE, design_ref='DESIGN.md section 4 (C11)', technique='TLA+ model checking (TLC) of MinVersion + trace validation of recorded min_version calls against spec/Api.tla'),
}
_LEVEL_V = ('TLC checks the design-level laws on a bounded universe (every pair / triple / string in scope) and prints each element as a case; '
            'every case plus seeded large and irregular ones is executed against the real crate and each recorded call is judged by TLC against the '
            'Api postcondition (spec/Version.tla, spec/VersionText.tla). Exhaustive in the small scope, sampled outside it; no proof about the Rust code.')
_NOTE_V = 'Trusted: TLC, the harness (JSON encoding of versions as digit/byte sequences, catch_unwind wrappers).'
MANIFEST_TEXT.update({
    'C04': dict(level=_LEVEL_V, note=_NOTE_V, design_ref='DESIGN.md section 4 (C04)', technique='TLA+ model checking (TLC) of the precedence order + trace validation of recorded cmp/eq/hash/sort calls against spec/Api.tla'),
    'C05': dict(level=_LEVEL_V, note=_NOTE_V, design_ref='DESIGN.md section 4 (C05)', technique='TLA+ byte-level parser state machine explored exhaustively by TLC + trace validation of recorded Version::parse calls'),
    'C12': dict(level=_LEVEL_V, note=_NOTE_V, design_ref='DESIGN.md section 4 (C12)', technique='TLA+ model checking (TLC) of print/parse round trip on the parser machine + trace validation of recorded print/re-parse/serde calls'),
    'C16': dict(level=_LEVEL_V, note=_NOTE_V + ' The oracle Diff is a transcription of node-semver 7.x functions/diff.js.', design_ref='DESIGN.md section 4 (C16)', technique='TLA+ model checking (TLC) of Diff + trace validation of recorded Version::diff calls'),
    'C17': dict(level=_LEVEL_V, note=_NOTE_V, design_ref='DESIGN.md section 4 (C17)', technique='TLA+ byte-level parser state machine (first failure kind and offset) + trace validation of recorded parse errors and their accessors'),
    'C18': dict(level='TLC enumerates (MC_Tuple) every non-negative u8/i8 value in every position of triples and quadruples and the full product of a boundary grid for all ten integer types, checks that the denoted version prints to a canonical version text denoting the same fields, and prints each tuple as a case; every case plus seeded random values pushed through every type that can hold them is converted by the real crate and judged by TLC against FromTuple3/FromTuple4/PrintVersion and the parse of the dotted string.',
                note=_NOTE_V, design_ref='DESIGN.md section 4 (C18)', technique='TLA+ model checking (TLC) of tuple -> version -> text round trip + trace validation of recorded From<tuple> conversions'),
})
_LEVEL_R = ('TLC checks on every syntax tree of the bounded model that the crate\'s representation (one interval per alternative plus the interval prerelease gate) '
            'can express npm\'s documented meaning exactly (fold == comparator-list semantics, pointwise on the probe set), that unsatisfiable texts are '
            'recognised and that every folded interval prints to a text meaning the same; each tree is rendered to text and parsed by the real crate, and every '
            'recorded call is judged by TLC against the npm desugaring of spec/RangeSyntax.tla (README tables pinned by ASSUMEs). Exhaustive in the small scope, '
            'seeded random trees with large numbers outside it; no proof about the Rust code.')
_NOTE_R = ('Trusted: TLC, the harness, the transcription of the node-semver README in spec/RangeSyntax.tla (its worked examples are ASSUMEs; calibrated at design time '
           'against node-semver 7.6.2). Known findings are attributed only when the specification with the named deviation reproduces every observation of the case.')
MANIFEST_TEXT.update({
    'C01': dict(level=_LEVEL_R, note=_NOTE_R, design_ref='DESIGN.md section 4 (C01), 2.4', technique='TLA+ specification of npm range desugaring, model-checked with TLC; generated range texts executed against the crate and validated by TLC (trace validation)'),
    'C02': dict(level=_LEVEL_R, note=_NOTE_R, design_ref='DESIGN.md section 4 (C02)', technique='TLA+ model checking (TLC) of comparator-list vs interval-fold semantics + trace validation of recorded parses of a, b, `a b`, `b a`, `a||b`, `b || a`'),
    'C03': dict(level=_LEVEL_R, note=_NOTE_R, design_ref='DESIGN.md section 4 (C03)', technique='TLA+ prerelease gate (Interval.tla Gate, RangeSyntax.tla written tags) checked by TLC + trace validation of recorded satisfies calls given the bounds the crate built'),
    'C13': dict(level=_LEVEL_R, note=_NOTE_R, design_ref='DESIGN.md section 4 (C13)', technique='TLA+ model checking (TLC) of print/desugar round trip per interval shape + trace validation of recorded print / re-parse / == / serde calls'),
    'C14': dict(level='Every recorded max_satisfying / min_satisfying call (parsed ranges of the bounded syntax model and seeded random texts x unsorted lists with duplicates, build-only variants and prereleases above the highest satisfying release, each list also reversed/rotated, and the empty list) is judged by TLC: the returned reference (pointer identity) is a satisfying element that no satisfying element exceeds in VCmp, None iff none satisfies, and per-element satisfies equals the specification\'s RSat on the bounds the crate built.',
                note=_NOTE_R, design_ref='DESIGN.md section 4 (C14)', technique='trace validation (TLC) of recorded max_satisfying/min_satisfying calls against the TLA+ definition; inputs from the TLC-enumerated syntax model'),
})
MANIFEST_TEXT.update({
    'C06': dict(level='Exploration driven by model-generated inputs: TLC enumerates every string of up to 3-4 tokens over an alphabet covering every token class plus every string of the version-text model; each goes through both parsers and every public operation is applied to whatever they return (against itself, against the five most recent values, and to the results), in a build with overflow checks and debug assertions; seeded generators add limit numbers under every operator form, 255-1024 byte inputs ending in multi-byte characters, damaged texts, sessions feeding results back, and repeated-token inputs up to 0.5-2 MB for the time rule. The Api state machine has no transition for a call that panics, aborts or does not return, so any such event is rejected by trace validation. The specification contributes totality and the input spaces; it says nothing about why the code cannot panic.',
                note=_NOTE_V + ' The linear-time clause is a measured budget (the only wall-clock dependent clause); stack exhaustion and aborts are observed as death of the harness process.',
                design_ref='DESIGN.md section 4 (C06)', technique='TLC-enumerated token strings and sessions executed against the crate under catch_unwind; trace validation against a total Api state machine (no panic transition)'),
    'C15': dict(level='TLC checks on every session of the bounded model (three loaded intervals, two intersect/difference calls over any registers) that every register denotes its ideal set (plain set algebra on the probe universe), from which all identities of C15 follow, and derives the identities each session must honour; the programs are executed against the real crate with results fed back as operands and each derived identity, each explicit identity shape on parsed ranges, and the reusability (print / re-parse) of every intermediate result are judged by TLC on the recorded trace.',
                note=_NOTE, design_ref='DESIGN.md section 4 (C15), 2.2', technique='TLA+ session state machine with an ideal-set ghost, model-checked with TLC; generated sessions executed against the crate and validated by TLC (trace validation)'),
})

# unbounded design-level lemmas (Apalache: all integer values; TLAPS: any strict total order), see DESIGN.md section 0
_UNB_CUT = (' The design-level lemma behind the operation is additionally discharged without bounds: by Apalache for all integer endpoints '
            '(spec/apalache/IntervalInt.tla) and by TLAPS for an arbitrary strict total order (spec/CutOrder.tla, bound to spec/Interval.tla by the '
            'model spec/MC_CutBind.tla). These are statements about the specification, not about the Rust code.')
for _p in ('C07', 'C08', 'C09', 'C10'):
    MANIFEST_TEXT[_p] = dict(MANIFEST_TEXT[_p], level=MANIFEST_TEXT[_p]['level'] + _UNB_CUT)
for _p, _l in (('C04', 'OrderLaws'), ('C16', 'DiffLaws')):
    MANIFEST_TEXT[_p] = dict(MANIFEST_TEXT[_p], level=MANIFEST_TEXT[_p]['level'] +
                             f' The design-level laws are additionally discharged by Apalache for arbitrary integer components and identifier values ({_l} in spec/apalache/OrderInt.tla): a statement about the specification, not about the Rust code.')
# C06 is exploration driven by model-generated inputs: the specification contributes totality and the input spaces
PROPS['C06']['level'] = 'exploration'
NOT_APPLICABLE = []
