"""Corrupted-trace controls: a recorded trace that is accepted must be rejected, at the corrupted
event, once a logged result / bound is changed.  Demonstrates that the trace specification binds."""
import os, json, copy


def _cases():
    def n(x): return [int(c) for c in str(x)]
    def v(M, m, p, pre=()): return {'M': n(M), 'm': n(m), 'p': n(p), 'pre': list(pre), 'bld': []}
    inc = lambda x: {'k': 'inc', 'v': x}
    exc = lambda x: {'k': 'exc', 'v': x}
    unb = {'k': 'unb'}
    A = [{'lo': inc(v(1, 0, 0)), 'up': exc(v(2, 0, 0))}]
    B = [{'lo': inc(v(1, 5, 0)), 'up': unb}]
    return [json.dumps({'op': 'pair', 'A': A, 'B': B}),
            json.dumps({'op': 'vcmp', 'a': v(1, 0, 0), 'b': v(1, 0, 0, [{'k': 'n', 'd': [0]}])})]


def run(V, wd):
    cp = os.path.join(wd, 'ctl_cases.ndjson')
    tp = os.path.join(wd, 'ctl_trace.ndjson')
    with open(cp, 'w') as f:
        f.write('\n'.join(_cases()) + '\n')
    V.harness_exec(cp, tp)
    bad, total, _ = V.validate_trace(tp, wd, nchunks=1)
    bad = [b for b in bad if b[2][0] == 'C']
    if bad:
        raise V.ToolError(f'control trace is not accepted on this tree: {bad[:5]} (run the property checks)')
    evs = [json.loads(l) for l in open(tp)]
    mutations = []
    for i, e in enumerate(evs):
        if e['ev'] == 'isect' and e['some'] and e['a'] != e['b'] and not any(m[0] == 'isect' for m in mutations):
            m = copy.deepcopy(e)
            m['val'][0]['lo']['k'] = 'exc' if m['val'][0]['lo']['k'] == 'inc' else 'inc'   # flip one logged bound
            mutations.append(('isect', i, m, 'C07'))
        if e['ev'] == 'any' and not any(m[0] == 'any' for m in mutations):
            m = copy.deepcopy(e); m['res'] = not m['res']
            mutations.append(('any', i, m, 'C09'))
        if e['ev'] == 'minv' and e['some'] and not any(m[0] == 'minv' for m in mutations):
            m = copy.deepcopy(e); m['val']['p'] = [9]
            mutations.append(('minv', i, m, 'C11'))
        if e['ev'] == 'vcmp':
            m = copy.deepcopy(e); m['cmp'] = -m['cmp']
            mutations.append(('vcmp', i, m, 'C04'))
    if len(mutations) < 4:
        raise V.ToolError('control trace lacks the events to corrupt')
    for kind, i, m, prop in mutations:
        path = os.path.join(wd, f'ctl_{kind}.ndjson')
        with open(path, 'w') as f:
            for j, e in enumerate(evs):
                f.write(json.dumps(m if j == i else e) + '\n')
        bad, _, _ = V.validate_trace(path, wd, nchunks=1)
        hit = [b for b in bad if b[0] == i + 1 and b[2].startswith(prop)]
        others = [b for b in bad if b[0] != i + 1 and b[2][0] == 'C' and not (kind == 'isect')]
        if not hit:
            raise V.ToolError(f'corrupted {kind} event at line {i + 1} was NOT rejected')
        print(f'[setup] corrupted-trace control {kind}: rejected at line {i + 1} with {sorted(set(b[2] for b in hit))}')
    # dropping an event that defines a register must also be noticed (the later call no longer matches its operands)
    idx = next(i for i, e in enumerate(evs) if e['ev'] == 'rload' and e['dst'] == 2)
    path = os.path.join(wd, 'ctl_drop.ndjson')
    with open(path, 'w') as f:
        for j, e in enumerate(evs):
            if j != idx:
                f.write(json.dumps(e) + '\n')
    bad, _, _ = V.validate_trace(path, wd, nchunks=1)
    hit = [b for b in bad if b[2][0] == 'C']
    if not hit:
        raise V.ToolError('a trace with a dropped load event was NOT rejected')
    print(f'[setup] corrupted-trace control drop-load: rejected at line(s) {sorted(set(b[0] for b in hit))[:3]} with {sorted(set(b[2] for b in hit))[:4]}')
