"""verif setup: build the harness, parse every module, run the control checks that show the
machinery can fail (negative-control models, corrupted-trace controls)."""
import os, sys, json, subprocess, shutil, glob, time, re

ROOT = os.path.dirname(os.path.dirname(os.path.abspath(__file__)))
SPEC = os.path.join(ROOT, 'spec')
WORK = os.path.join(ROOT, 'work')


def main():
    import importlib.machinery, importlib.util
    loader = importlib.machinery.SourceFileLoader('verif_main', os.path.join(ROOT, 'bin', 'verif'))
    spec = importlib.util.spec_from_loader('verif_main', loader)
    V = importlib.util.module_from_spec(spec)
    loader.exec_module(V)
    t0 = time.time()
    os.makedirs(WORK, exist_ok=True)
    try:
        V.build_harness()
        print('[setup] harness built')
        # 1. every module parses
        for m in sorted(glob.glob(os.path.join(SPEC, '*.tla'))):
            p = V.run(['java', '-cp', V.TLA_CP, 'tla2sany.SANY', os.path.basename(m)], cwd=SPEC)
            if p.returncode != 0 or 'Semantic errors' in p.stdout or 'Fatal' in p.stdout or '*** Errors' in p.stdout:
                print(p.stdout[-3000:])
                raise V.ToolError(f'SANY rejects {m}')
        print('[setup] SANY accepts every module')
        wd = os.path.join(WORK, 'setup')
        shutil.rmtree(wd, ignore_errors=True)
        os.makedirs(wd)
        # 2. negative controls: the transcription of the pinned algorithms must be rejected by the
        #    same invariants the design passes (the invariants are not vacuous)
        for inv in ['InvIntersect', 'InvDifference', 'InvAllowsAny', 'InvAllowsAll', 'InvMinVersion']:
            r = V.run_model(wd, f'neg_{inv}', 'MC_Interval', dict(Universe='small', Alts=(2 if inv == 'InvDifference' else 1), UseImpl=True, Emit=False),
                            [inv], workers=8, expect_violation=True)
            if r['violated'] != inv:
                raise V.ToolError(f'negative control: {inv} was not violated by the pinned-code transcription')
            print(f'[setup] negative control {inv}: rejected as expected')
        # 2a. TLAPS: the cut algebra is proved for any strict total order; a copy whose MinUp picks the wrong side is not
        for bad in (False, True):
            td = os.path.join(wd, 'tlaps_bad' if bad else 'tlaps')
            os.makedirs(td)
            src = open(os.path.join(SPEC, 'CutOrder.tla')).read()
            if bad:
                good_line = 'MinUp(a, b) == IF UpLe(b, a) /\\ ~UpLe(a, b) THEN b ELSE a'
                if good_line not in src:
                    raise V.ToolError('TLAPS control: MinUp definition not found in CutOrder.tla')
                src = src.replace(good_line, 'MinUp(a, b) == IF UpLe(a, b) /\\ ~UpLe(b, a) THEN b ELSE a')
            open(os.path.join(td, 'CutOrder.tla'), 'w').write(src)
            p = V.run(['tlapm', '--threads', '8', 'CutOrder.tla'], cwd=td, timeout=900)
            proved = re.search(r'All (\d+) obligations? proved', p.stdout)
            if bad and (proved or 'obligations failed' not in p.stdout):
                raise V.ToolError('TLAPS control: the damaged cut algebra was still proved')
            if not bad and not proved:
                raise V.ToolError('tlapm does not prove CutOrder.tla: ' + p.stdout[-1500:])
            print('[setup] TLAPS control: damaged MinUp leaves obligations unproved' if bad
                  else f'[setup] tlapm proves CutOrder.tla ({proved.group(1)} obligations, any strict total order)')
        # 2b. vacuity guard: with small constants every action / disjunct of every bounded model is taken
        cov_models = [
            ('MC_Interval', dict(Universe='small', Alts=1, UseImpl=False, Emit=False), ['InvIntersect']),
            ('MC_Version', dict(Mode='order', Size='small', Emit=False), ['InvReflexive']),
            ('MC_Version', dict(Mode='triples', Size='small', Emit=False), ['InvTransitive']),
            ('MC_VText', dict(SymbolSet='a', MaxLive=4, MaxExtra=1, Emit=False), ['InvFold']),
            ('MC_Syntax', dict(Mode='alts', Size='small', Emit=False, CaseOp='rparse', Slice=0, Of=64), ['InvFoldMeans']),
            ('MC_Api', dict(MaxOps=2, Alts=1, Emit=False, Slice=0, Of=32, Of2=32), ['InvIdeal']),
            ('MC_Tokens', dict(MaxLen=2, Emit=False, Slice=0, Of=1), ['InvSpecTotal', 'InvRangeTextTotal']),
            ('MC_Lists', dict(MaxList=2, Emit=False, Slice=0, Of=1), ['InvAnswerExists']),
            ('MC_Tuple', dict(Mode='grid', Emit=False), ['InvTupleRoundTrip']),
        ]
        for i, (mod, consts, invs) in enumerate(cov_models):
            # action coverage only: no invariant is evaluated (TLC's coverage bookkeeping on the deeply recursive
            # operators of the invariants is slow and memory hungry, and says nothing about the actions)
            r = V.run_model(wd, f'cov{i}_{mod}', mod, consts, [], workers=8, coverage=True, timeout=600)
            if r['coverage_zero']:
                raise V.ToolError(f'vacuity: actions never taken in {mod} {consts}: {r["coverage_zero"]}')
            print(f'[setup] coverage {mod} {consts.get("Mode", "")}: {r["distinct"]} states, every action taken')
        # 3. corrupted-trace controls
        import controls
        controls.run(V, wd)
        shutil.rmtree(wd, ignore_errors=True)
    except V.ToolError as e:
        print(f'TOOL-ERROR: {e}', file=sys.stderr)
        return 2
    print(f'[setup] ok in {time.time() - t0:.1f}s')
    return 0
