#!/usr/bin/env python3
"""Group flagged cases of a kept work directory by clause and show their texts (debugging aid)."""
import json, sys, os, collections
sys.path.insert(0, os.path.dirname(os.path.abspath(__file__)))
import pretty
wd = sys.argv[1]; prop = sys.argv[2] if len(sys.argv) > 2 else None
bad = json.load(open(os.path.join(wd, 'bad.json')))
lines = {}
for l, cid, tag in bad:
    if prop and not tag.startswith(prop): continue
    lines.setdefault(l, set()).add(tag)
evs = {}
with open(os.path.join(wd, 'trace.ndjson')) as f:
    for i, line in enumerate(f, 1):
        if i in lines: evs[i] = json.loads(line)
groups = collections.defaultdict(list)
for l, tags in sorted(lines.items()):
    e = evs[l]
    key = ','.join(sorted(tags))
    if 'text' in e:
        t = pretty.txt(e['text'])
        extra = ''
        if e.get('out') == 'ok':
            extra = ' => ' + pretty.rng(e.get('val', []))
        elif e.get('out') == 'err':
            extra = ' => ERR ' + str(e['err'].get('kind'))
        groups[key].append(repr(t) + extra)
    else:
        groups[key].append(f'line {l} {e["ev"]}')
for k, v in groups.items():
    print(f'== {k}: {len(v)}')
    for x in v[:int(os.environ.get('N', '25'))]: print('   ', x)
